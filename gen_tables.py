#!/usr/bin/env python3
"""Rewrites the generated tables of DESIGN.md (between the TABLE9 markers) from registry.json and the
evidence files of the last quick runs."""
import json, os, re
ROOT = os.path.dirname(os.path.abspath(__file__))
reg = json.load(open(os.path.join(ROOT, "registry.json")))
rows = ["| id | quick-tier harness instances | wall (last clean quick run) | thorough adds |", "|----|------------------------------|-----------------------------|---------------|"]
for i in range(1, 21):
    p = "C%02d" % i
    q = [h["name"] for h in reg["harnesses"] if p in h.get("quick_for", [])]
    t = [h["name"] + ("*" if h.get("optional") else "") for h in reg["harnesses"] if p in h.get("thorough_for", []) and p not in h.get("quick_for", [])]
    wall = "n/a"
    ev = os.path.join(ROOT, "evidence", p + ".json")
    if os.path.exists(ev):
        e = json.load(open(ev))
        if e.get("tier") == "quick":
            wall = "%d s, %d harnesses, %d Kani checks" % (e["wall_s"], e["coverage"].get("harnesses_run", 0), e["coverage"].get("obligations", 0))
    if p == "C20":
        tt = "every instance that is in some quick tier (%d)" % len(t)
    else:
        tt = ", ".join("`%s`" % x for x in t) if t else "—"
    rows.append("| %s | %s | %s | %s |" % (p, ", ".join("`%s`" % x for x in q), wall, tt))
txt = "\n".join(rows)
dp = os.path.join(ROOT, "DESIGN.md")
s = open(dp).read()
a = s.index("<!-- TABLE9 START -->") + len("<!-- TABLE9 START -->")
b = s.index("<!-- TABLE9 END -->")
s = s[:a] + "\n" + txt + "\n" + s[b:]
open(dp, "w").write(s)
print("tables regenerated")
