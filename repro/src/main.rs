use prefix_trie::trieview::UnionItem;
use prefix_trie::*;
type P = (u8, u8);
fn check(name: &str, ok: bool) {
    println!("{name}: {}", if ok { "ok" } else { "DEFECT" });
}
fn main() {
    // D1 (C19): PartialEq via zip().all()
    let a: PrefixMap<P, u8> = PrefixMap::new();
    let mut b: PrefixMap<P, u8> = PrefixMap::new();
    b.insert((0, 1), 1);
    check("D1 map: empty != {0/1}", a != b && b != a);
    let sa: PrefixSet<P> = PrefixSet::new();
    let mut sb: PrefixSet<P> = PrefixSet::new();
    sb.insert((0, 1));
    check("D1 set: empty != {0/1}", sa != sb && sb != sa);
    // D2 (C08): LPM seeds with different view roots
    let mut m: PrefixMap<P, u8> = PrefixMap::new();
    m.insert((0x80, 1), 1);
    m.insert((0xc0, 2), 2);
    let it: Vec<_> = m.view().union(m.view_at((0xc0, 2)).unwrap()).collect();
    check("D2 union seed", matches!(it[0], UnionItem::Left { right: None, .. }));
    let it: Vec<_> = m.view().difference(m.view_at((0xc0, 2)).unwrap()).collect();
    check("D2 difference seed", it[0].right.is_none());
    let mut m2 = m.clone();
    let mut vm = m2.view_mut();
    let it: Vec<_> = vm.difference_mut(m.view_at((0xc0, 2)).unwrap()).collect();
    check("D2 difference_mut seed", it[0].right.is_none());
    // D3 (C16): collapsed parent slot never released
    let mut m: PrefixMap<P, u8> = PrefixMap::new();
    m.insert((0x00, 2), 1);
    m.insert((0x40, 2), 2);
    let before = m.__verif_len();
    for _ in 0..10 {
        m.remove(&(0x00, 2));
        m.remove(&(0x40, 2));
        m.insert((0x00, 2), 1);
        m.insert((0x40, 2), 2);
    }
    check("D3 arena bounded under insert/remove churn", m.__verif_len() == before);
    // D4 (C04): OccupiedEntry::remove
    let mut m: PrefixMap<P, u8> = PrefixMap::new();
    m.insert((0, 1), 1);
    if let map::Entry::Occupied(mut e) = m.entry((0, 1)) {
        e.remove();
    }
    check("D4 OccupiedEntry::remove keeps len() consistent", m.len() == m.iter().count());
    // D5 (C04, known): TrieViewMut::set / remove do not touch the counter
    let mut m: PrefixMap<P, u8> = PrefixMap::new();
    m.insert((0x00, 2), 1);
    m.insert((0x40, 2), 2);
    let _ = m.view_mut_at((0x00, 1)).unwrap().set(9); // the value-less branch node 0/1
    check("D5 TrieViewMut::set keeps len() consistent", m.len() == m.iter().count());
    let _ = m.view_mut_at((0x00, 2)).unwrap().remove();
    let _ = m.view_mut_at((0x40, 2)).unwrap().remove();
    check("D5 TrieViewMut::remove keeps len() consistent", m.len() == m.iter().count());
    // D6 (C12): find_lpm outside the view
    let mut m: PrefixMap<P, u8> = PrefixMap::new();
    m.insert((0x80, 2), 1);
    m.insert((0x80, 4), 2);
    m.insert((0xb0, 4), 3);
    check("D6 find_lpm of a prefix outside the view", m.view_at((0x80, 2)).unwrap().find_lpm(&(0x40, 3)).is_none());
    // D7 (C12): find with a prefix above the view
    let n = m.view_at((0x80, 2)).unwrap().find((0x80, 1)).map(|x| x.iter().count());
    check("D7 find of a prefix covering the view", n == Some(3));
    // D8 (C20, known): OccupiedEntry::remove(&mut self) then get()
    let r = std::panic::catch_unwind(|| {
        let mut m: PrefixMap<P, u8> = PrefixMap::new();
        m.insert((0, 1), 1);
        if let map::Entry::Occupied(mut e) = m.entry((0, 1)) {
            e.remove();
            let _ = *e.get();
        }
    });
    check("D8 OccupiedEntry: remove() then get() does not panic", r.is_ok());
    // D9 (C18): representation of a right-only union item
    let mut a: PrefixMap<P, u8> = PrefixMap::new();
    a.insert((0xf0, 4), 1);
    a.remove_keep_tree(&(0xf0, 4));
    a.insert((0xf0, 6), 7);
    let mut b: PrefixMap<P, u8> = PrefixMap::new();
    b.insert((0xff, 4), 2);
    let ok = a.view().union(&b).all(|it| match it {
        UnionItem::Right { prefix, .. } => *prefix == (0xff, 4),
        _ => true,
    });
    check("D9 union Right item reports the right operand's stored prefix", ok);
}
