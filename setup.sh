#!/bin/bash
# Build the framework from files on disk only (offline). The checks themselves rebuild /repo and
# the harness crate from the current working tree on every run.
set -e
cd "$(dirname "$0")"
export CARGO_NET_OFFLINE=true
python3 mkreg.py
mkdir -p .work replays evidence
(cd harness && cargo build --offline --bin replay --target-dir ../.work/native 2>&1 | tail -2)
echo "setup ok"
