#!/bin/bash
# run the quick check of every claimed property once, sequentially (what `vp check` does)
cd /verif
for p in "$@"; do
  /usr/bin/time -f "$p wall=%es" ./check $p --tier quick > .work/quick_$p.log 2>&1
  echo "$p exit=$? $(tail -1 .work/quick_$p.log)"
done
