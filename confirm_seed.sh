#!/bin/bash
# usage: confirm_seed.sh <agent-out-dir> <seed-id>
# Confirms a seeded change independently of the agent that wrote it: fresh scratch worktree of /repo HEAD,
# demo on the clean tree (must pass), demo with the patch (must fail), baseline suite twice with the
# patch (must pass), build with the hooks feature. Writes /verif/seeded/<id>/{patch.diff,demo.rs,meta.json}
# only if all of that holds. Removes the worktree afterwards.
out=$1; sid=$2
w=/tmp/cf/$sid
rm -rf $w; mkdir -p /tmp/cf
git -C /repo worktree add --detach -q $w HEAD || exit 3
cp /repo/Cargo.lock $w/ 2>/dev/null
mkdir -p $w/tests; cp $out/demo.rs $w/tests/seed_demo.rs
cd $w
export CARGO_NET_OFFLINE=true CARGO_TARGET_DIR=$w/target
dc=$(cargo test --offline --test seed_demo 2>&1 | grep "^test result" | tail -1)
git apply $out/patch.diff || { echo "$sid: patch does not apply"; cd /; git -C /repo worktree remove --force $w; exit 3; }
dm=$(cargo test --offline --test seed_demo 2>&1 | grep "^test result" | tail -1)
rm -f tests/seed_demo.rs
s1=$(cargo test --offline --workspace --no-fail-fast 2>&1 | grep "^test result" | head -1)
s2=$(cargo test --offline --workspace --no-fail-fast 2>&1 | grep "^test result" | head -1)
b=$(cargo build --offline --no-default-features --features verif-hooks 2>&1 | tail -1)
cd /
git -C /repo worktree remove --force $w
python3 - "$out" "$sid" "$dc" "$dm" "$s1" "$s2" "$b" <<'P'
import sys,json,os,shutil,re
out,sid,dc,dm,s1,s2,b=sys.argv[1:]
ok = ("test result: ok" in dc) and ("FAILED" in dm) and all("ok. 150 passed; 0 failed" in s for s in (s1,s2)) and "Finished" in b
print(sid, "OK" if ok else "NOT CONFIRMED", "| clean:",dc,"| patched:",dm,"|",s1,"|",s2,"|",b)
if ok:
    d="/verif/seeded/"+sid
    os.makedirs(d,exist_ok=True)
    shutil.copy(out+"/patch.diff",d+"/patch.diff"); shutil.copy(out+"/demo.rs",d+"/demo.rs")
    m=json.load(open(out+"/meta.json"))
    m["origin"]="independent sub-agent given only the property text, a hint naming the sites earlier rounds had already used, and a scratch worktree"
    m["confirmed_by_me"]={"how":"confirm_seed.sh: scratch worktree at /repo HEAD: demo as tests/seed_demo.rs on the clean tree, then with the patch applied; cargo test --offline --workspace twice with the patch; cargo build --no-default-features --features verif-hooks",
      "result":"demo-clean=[%s] demo-patched=[%s] suite1=[%s] suite2=[%s] build=[%s]"%(dc,dm,s1,s2,b.strip()),"ok":True}
    json.dump(m,open(d+"/meta.json","w"),indent=1)
P
