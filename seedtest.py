#!/usr/bin/env python3
"""Runs the checks against the seeded changes in /verif/seeded: applies each patch to /repo, runs the
named harnesses of the property's check (or the whole quick tier with --full), undoes the patch, and
records the outcome in seeded/<id>/result.json."""
import json, os, subprocess, sys, time
ROOT = os.path.dirname(os.path.abspath(__file__))
TARGET = {
 "C01-A": ("C01", "remove_slots_n3,remove_shape_n3"), "C01-B": ("C01", "obs_get_n3"),
 "C02-A": ("C02", "obs_lpm_mut_n3"), "C02-B": ("C02", "obs_lpm_n3"),
 "C03-A": ("C03", "whole_iter_mut_n3"), "C03-B": ("C03", "remove_shape_n3,remove_slots_n3"),
 "C04-A": ("C04", "retain_lite_n2,retain_n2"), "C04-B": ("C04", "entry_top0_len_n2,entry_top1_len_n2"),
 "C05-A": ("C05", "union_helper0_n3,union_init_ro_n2"), "C05-B": ("C05", "union_init_ro_n2"),
 "C06-A": ("C06", "inter_helper0_n3,inter_init_ro_n2"), "C06-B": ("C06", "inter_init_ro_n2,inter_init_mut_n2"),
 "C07-A": ("C07", "covdiff_init_ro_n2,covdiff_init_mut_n2"), "C07-B": ("C07", "covdiff_step_ro_n2"),
 "C08-A": ("C08", "union_init_ro_n2,union_whole_n1"), "C08-B": ("C08", "diff_init_ro_n2,diff_init_mut_n2"),
 "C09-A": ("C09", "obs_spm_n3"), "C09-B": ("C09", "obs_cover_n3"),
 "C10-A": ("C10", "rmchildren_slots_n3,rmchildren_ret_n3"), "C10-B": ("C10", "retain_n2,retain_lite_n2"),
 "C11-A": ("C11", "view_find0_ro_n3,view_find3_ro_n3"), "C11-B": ("C11", "view_nav_mut_n3"),
 "C12-A": ("C12", "view_find0_ro_n3,view_find0_mut_n3"), "C12-B": ("C12", "view_find2_ro_n3,view_find2_mut_n3"),
 "C13-A": ("C13", "covdiff_init_mut_n2"), "C13-B": ("C13", "view_access0_n3,view_access2_n3"),
 "C14-A": ("C14", "view_find0_mut_n3"), "C14-B": ("C14", "view_nav_mut_n3"),
 "C15-A": ("C15", "remove_shape_n4"), "C15-B": ("C15", "remove_shape_n3"),
 "C16-A": ("C16", "remove_slots_n3"), "C16-B": ("C16", "rmchildren_slots_n3"),
 "C17-A": ("C17", "alg_u8,alg_u32"), "C17-B": ("C17", "alg_u8,alg_u64"),
 "C18-A": ("C18", "insert_ret_n2,entry_top0_ret_n2"), "C18-B": ("C18", "inter_helper0_n3,inter_step_ro_n2"),
 "C19-A": ("C19", "eq_map_n1"), "C19-B": ("C19", "eq_set_n1"),
 "C20-A": ("C20", "retain_obs_n2"), "C20-B": ("C20", "remove_shape_n3,remove_slots_n3"),
}
def main():
    full = "--full" in sys.argv
    ids = [a for a in sys.argv[1:] if not a.startswith("--")] or sorted(TARGET)
    env = dict(os.environ, VERIF_WORK=os.path.join(ROOT, ".work3"))
    for sid in ids:
        prop, only = TARGET[sid]
        d = os.path.join(ROOT, "seeded", sid)
        if subprocess.run(["git", "-C", "/repo", "diff", "--quiet"]).returncode != 0:
            print("/repo dirty, abort"); return 1
        if subprocess.run(["git", "-C", "/repo", "apply", os.path.join(d, "patch.diff")]).returncode != 0:
            print(sid, "PATCH DOES NOT APPLY"); continue
        t0 = time.time()
        try:
            cmd = ["./check", prop, "--tier", "quick"] + ([] if full else ["--only", only])
            r = subprocess.run(cmd, cwd=ROOT, env=env, capture_output=True, text=True)
        finally:
            subprocess.run(["git", "-C", "/repo", "checkout", "--", "."])
        viol = [l for l in r.stdout.splitlines() if l.startswith("VIOLATION") or l.strip().startswith("harness=")]
        res = {"seed": sid, "property": prop, "mode": "full quick tier" if full else "harnesses " + only, "cmd": " ".join(cmd),
               "exit": r.returncode, "detected": r.returncode == 1 and any(l.startswith("VIOLATION") for l in viol),
               "violations": viol, "summary": [l for l in r.stdout.splitlines() if l.startswith("summary") or "INCONCLUSIVE harness" in l or "NON-REPRO" in l],
               "wall_s": round(time.time() - t0)}
        key = "result_full.json" if full else "result.json"
        json.dump(res, open(os.path.join(d, key), "w"), indent=1)
        print(sid, "exit=%d" % r.returncode, "DETECTED" if res["detected"] else "MISSED", "%ds" % res["wall_s"], "; ".join(v.strip() for v in viol[:4])[:200], flush=True)
    return 0
if __name__ == "__main__":
    sys.exit(main())
