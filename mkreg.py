#!/usr/bin/env python3
"""Single source of the harness table. Generates
  - registry.json            (metadata read by ./check)
  - harness/src/registry.rs  (the #[kani::proof] wrappers + native dispatch table)
Run after editing:  python3 mkreg.py
"""
import json, os

ROOT = os.path.dirname(os.path.abspath(__file__))
H = []


def h(name, unwind, body, props, tier, bounds, functions, cost=60, stub="nogrow", checks="lite", **kw):
    d = {"name": name, "unwind": unwind, "body": body, "props": props, "tier": tier, "checks": checks,
         "stub": stub != "nostub", "stub_kind": stub, "cost": cost, "functions": functions, "bounds": bounds}
    d.update(kw)
    assert name not in [x["name"] for x in H], name
    H.append(d)


P8 = "P=(u8,u8), all lengths 0..=8, all host bits; T=u8"
DESCENT = ["Table::get_direction", "Prefix::{eq,contains,is_bit_set,mask} for (u8,u8)"]
INS = ["Table::get_direction_for_insert", "PrefixMap::new_node", "Table::set_child", "Prefix::longest_common_prefix"]
GROUPS = {"ret": ("step::RET", ["C01", "C18"]), "len": ("step::LEN", ["C04"]),
          "shape": ("step::SHAPE", ["C15"]), "slots": ("step::SLOTS", ["C16"])}


def pre_txt(n, f):
    return "pre-state: any arena of N=%d slots with WF+FREE+CNT, free list <= %d, symbolic topology" % (n, f)


# ------------------------------------------------------------------ observers (C01, C02, C09, C18)
for n, tier, cost in ((3, "quick", 40), (4, "thorough", 150)):
    h("obs_get_n%d" % n, n + 2, "obs::get::<_, %d>" % n, ["C01", "C18", "C20"], tier,
      "any WF arena of N=%d slots; query any prefix; %s; unwind %d" % (n, P8, n + 2),
      ["PrefixMap::get", "PrefixMap::contains_key", "PrefixMap::get_key_value"] + DESCENT, cost=cost)

def obs(name, body, props, fns, sizes):
    for n, tier, cost in sizes:
        h("%s_n%d" % (name, n), n + 2, "obs::%s::<_, %d>" % (body, n), props + ["C20"], tier,
          "any WF arena of N=%d slots (symbolic topology, value-less nodes anywhere); query any prefix; %s; unwind %d" % (n, P8, n + 2), fns + DESCENT, cost=cost)


obs("obs_get_mut", "get_mut", ["C01", "C13", "C14", "C04"], ["PrefixMap::get_mut"], ((3, "quick", 40), (4, "thorough", 150)))
obs("obs_lpm", "lpm", ["C02", "C18"], ["PrefixMap::get_lpm", "PrefixMap::get_lpm_prefix", "Node::prefix_value"], ((3, "quick", 60), (4, "thorough", 200)))
obs("obs_lpm_mut", "lpm_mut", ["C02", "C13", "C14"], ["PrefixMap::get_lpm_mut", "Node::prefix_value_mut"], ((3, "quick", 60), (4, "thorough", 200)))
obs("obs_spm", "spm", ["C09", "C18"], ["PrefixMap::get_spm", "PrefixMap::get_spm_prefix"], ((3, "quick", 60), (4, "thorough", 200)))
obs("obs_cover", "cover", ["C09", "C02", "C18"], ["PrefixMap::cover", "Cover::next"], ((3, "quick", 120), (4, "thorough", 400)))
obs("obs_cover_proj", "cover_proj", ["C09"], ["PrefixMap::cover_keys", "PrefixMap::cover_values", "CoverKeys::next", "CoverValues::next"], ((2, "quick", 60),))
obs("obs_set", "set_obs", ["C01", "C02", "C09", "C18", "C04"], ["PrefixSet::{contains,get,get_lpm,get_spm,cover,len,is_empty}"], ((3, "quick", 120),))

# ------------------------------------------------------------------ single-map iterators
ITER_KINDS = [("iter", ["C03", "C18", "C04"], ["PrefixMap::iter", "Iter::next"]),
              ("iter_mut", ["C03", "C13", "C14"], ["PrefixMap::iter_mut", "IterMut::next", "Table::get_mut"]),
              ("into_iter", ["C03"], ["PrefixMap::into_iter", "IntoIter::next", "Table::into_inner"]),
              ("keys_values_clone", ["C03"], ["<&PrefixMap>::into_iter", "PrefixMap::keys", "PrefixMap::values", "Keys::next", "Values::next", "Iter::clone"])]
for kind, (nm, props, fns) in enumerate(ITER_KINDS):
    for n, tier, cost in ((3, "quick", 300), (4, "thorough", 1200)):
        if kind == 3 and n == 4:
            continue
        h("whole_%s_n%d" % (nm, n), n + 3, "iters::whole::<_, %d, %d>" % (kind, n), props + ["C20"], tier,
          "any WF arena of N=%d slots; full traversal through the real constructor (stack re-homed into reserved capacity), probe prefix; %s; unwind %d" % (n, P8, n + 3), fns, cost=cost,
          stub="growmodel" if kind == 3 else "nogrow")
CH_KINDS = [("children", ["C10", "C18"], ["PrefixMap::children", "lpm_children_iter_start", "Iter::next"]),
            ("children_mut", ["C10", "C13"], ["PrefixMap::children_mut", "lpm_children_iter_start", "IterMut::next"]),
            ("into_children", ["C10"], ["PrefixMap::into_children", "lpm_children_iter_start", "IntoIter::next"])]
for kind, (nm, props, fns) in enumerate(CH_KINDS):
    for n, tier, cost in ((3, "quick", 300), (4, "thorough", 1200)):
        h("%s_n%d" % (nm, n), n + 3, "iters::children::<_, %d, %d>" % (kind, n), props + ["C20"], tier,
          "any WF arena of N=%d slots; any selector prefix (stored, branching, on an edge, absent, zero-length, host bits); full traversal; %s; unwind %d" % (n, P8, n + 3), fns, cost=cost)
for kind, nm in enumerate(("iter", "iter_mut")):
    for n, k, tier, cost in ((3, 2, "quick", 200), (4, 2, "thorough", 800)):
        h("step_%s_n%d" % (nm, n), n + 2, "iters::step::<_, %d, %d, %d, %d>" % (kind, n, k, k + 1), ["C03", "C14", "C13", "C20"], tier,
          "any WF arena of N=%d slots and any injected stack of <= %d entries satisfying StackInv; one next(); probe slot; unwind %d" % (n, k, n + 2),
          ["Iter::next" if kind == 0 else "IterMut::next"], cost=cost)

# ------------------------------------------------------------------ set operations (Init + Step)
FAMS = [("union", 0, "C05", ["TrieView::union", "Union::next", "union::{next_indices,next_indices_first_l,next_indices_first_r,extend_lpm}"],
         ["TrieViewMut::union_mut", "UnionMut::next", "union::next_indices*"]),
        ("inter", 1, "C06", ["TrieView::intersection", "Intersection::next", "intersection::{next_indices,next_indices_first_a,next_indices_first_b}"],
         ["TrieViewMut::intersection_mut", "IntersectionMut::next", "intersection::next_indices*"]),
        ("diff", 2, "C07", ["TrieView::difference", "Difference::next", "difference::{next_indices,next_indices_first_a,next_indices_first_b,extend_lpm}"],
         ["TrieViewMut::difference_mut", "DifferenceMut::next", "difference::next_indices*"]),
        ("covdiff", 3, "C07", ["TrieView::covering_difference", "CoveringDifference::next", "difference::next_indices*"],
         ["TrieViewMut::covering_difference_mut", "CoveringDifferenceMut::next", "difference::next_indices*"])]
for fam, code, cprop, fro, fmu in FAMS:
    for mut in (False, True):
        m = "mut" if mut else "ro"
        props = [cprop, "C18", "C20"] + (["C13", "C14"] if mut else []) + (["C08"] if fam in ("union", "diff") else [])
        for n, k, tier, cost in ((2, 1, "quick", 200), (3, 2, "thorough", 1500)):
            h("%s_init_%s_n%d" % (fam, m, n), n + 3, "setops::run::<_, %d, %s, true, %d, 1, 3>" % (code, str(mut).lower(), n), props, tier,
              "two WF arenas of N=%d slots each, any pair of view locations (node or virtual, any roots); the real constructor; stack read back; entry probes; %s; unwind %d" % (n, P8, n + 3),
              (fmu if mut else fro)[:1] + (fmu if mut else fro)[2:], cost=cost // 2, stub="growmodel")
            h("%s_step_%s_n%d" % (fam, m, n), n + 3, "setops::run::<_, %d, %s, false, %d, %d, %d>" % (code, str(mut).lower(), n, k, k + 3), props, tier,
              "two WF arenas of N=%d slots each, any pair of view locations, any injected stack of <= %d entries satisfying StackInv; one next(); stack read back; entry probes; %s; unwind %d" % (n, k, P8, n + 3),
              (fmu if mut else fro)[1:], cost=cost, stub="growmodel")

# ------------------------------------------------------------------ views
VIEW_LOC = "any view location: Node(i) for reachable i or Virtual(p,i) with p strictly covering node i"
for mut in (False, True):
    m = "mut" if mut else "ro"
    fn = "AsViewMut::view_mut_at" if mut else "AsView::view_at"
    for n, tier, cost in ((3, "quick", 80), (4, "thorough", 300)):
        h("view_at_%s_n%d" % (m, n), n + 2, "views::view_at::<_, %s, %d>" % (str(mut).lower(), n), ["C11", "C18", "C20"], tier,
          "any WF arena of N=%d slots; any query; region probe; %s; unwind %d" % (n, P8, n + 2),
          [fn, ("TrieViewMut" if mut else "TrieView") + "::{find,prefix,value}", "Table::get_direction_for_insert"], cost=cost)
        h("view_nav_%s_n%d" % (m, n), n + 2, "views::nav::<_, %s, %d>" % (str(mut).lower(), n), ["C11", "C14", "C20"], tier,
          "any WF arena of N=%d slots; %s; entry probe; unwind %d" % (n, VIEW_LOC, n + 2),
          [("TrieViewMut" if mut else "TrieView") + "::{left,right" + (",split,has_left,has_right}" if mut else "}")], cost=cost)
    for op, nm in enumerate(("find", "find_exact", "find_lpm", "view_at on a view")):
        for n, tier, cost in ((3, "quick", 100), (4, "thorough", 400)):
            h("view_find%d_%s_n%d" % (op, m, n), n + 2, "views::find::<_, %s, %d, %d>" % (str(mut).lower(), op, n), ["C12", "C14", "C20"] + (["C11"] if op in (0, 3) else []), tier,
              "any WF arena of N=%d slots; %s; any query (inside, covering, disjoint); entry probe; unwind %d" % (n, VIEW_LOC, n + 2),
              [("TrieViewMut::" if mut else "TrieView::") + nm, "Table::get_direction", "Table::get_direction_for_insert"], cost=cost)
for op, nm in enumerate(("value_mut", "prefix_value_mut", "set", "remove")):
    h("view_access%d_n3" % op, 5, "views::access::<_, %d, 3>" % op, ["C13", "C14", "C04", "C11", "C15", "C18", "C20"], "quick",
      "any WF arena of N=3 slots; %s; TrieViewMut::%s then arena read-back; unwind 5" % (VIEW_LOC, nm),
      ["TrieViewMut::{value,prefix,prefix_value,node_mut," + nm + "}", "Table::get_mut"], cost=60)

# ------------------------------------------------------------------ mutator steps, one instance per assertion group
def step(op, n, f, tier, cost, extra_props=(), groups=("ret", "len", "shape", "slots")):
    for g in groups:
        const, props = GROUPS[g]
        props = list(props) + ["C20"] + list(extra_props)
        if op == "insert":
            m, gg = n + 2, max(f, 1)
            body = "step::insert::<_, {%s}, %d, %d, %d, %d>" % (const, n, f, m, gg)
            fns = ["PrefixMap::insert"] + INS
            unwind = m + 2
        elif op == "remove":
            gg = n - 1
            body = "step::remove::<_, {%s}, %d, %d, %d>" % (const, n, f, gg)
            fns = ["PrefixMap::remove", "PrefixMap::_remove_node", "Table::clear_child"] + DESCENT
            unwind = n + 2
        elif op == "rkt":
            body = "step::remove_keep_tree::<_, {%s}, %d, %d>" % (const, n, f)
            fns = ["PrefixMap::remove_keep_tree"] + DESCENT
            unwind = n + 2
        elif op == "rmchildren":
            gg = n - 1
            body = "step::remove_children::<_, {%s}, %d, %d, %d>" % (const, n, f, gg)
            fns = ["PrefixMap::remove_children", "PrefixMap::_do_remove_children", "PrefixMap::clear", "Table::get_direction_for_insert"]
            unwind = n + 2
        else:
            raise ValueError(op)
        h("%s_%s_n%d" % (op, g, n), unwind, body, props, tier,
          "%s; one %s with symbolic arguments; %s; unwind %d" % (pre_txt(n, f), op, P8, unwind), fns, cost=cost)


step("insert", 2, 1, "quick", 120)
step("insert", 3, 2, "thorough", 300)
step("remove", 3, 1, "quick", 90)
step("remove", 4, 1, "quick", 270, groups=("shape", "slots"))
step("remove", 4, 1, "thorough", 270, groups=("ret", "len"))
step("rkt", 3, 1, "quick", 50)
step("rmchildren", 3, 1, "quick", 200, extra_props=["C10"])
h("clear_n3", 5, "step::clear::<_, 3, 1>", ["C01", "C04", "C15", "C16", "C20"], "quick",
  pre_txt(3, 1) + "; clear(); unwind 5", ["PrefixMap::clear"], cost=20)

ENTRY_TOP = ["insert", "or_insert", "or_insert_with", "or_default", "and_modify+or_insert", "get_mut-write"]
ENTRY_HANDLE = ["Occupied::insert / Vacant::insert", "Occupied::remove / Vacant::insert_with", "Occupied::get_mut / Vacant::default"]
for g in ("ret", "len", "shape", "slots"):
    const, props = GROUPS[g]
    for op, nm in enumerate(ENTRY_TOP):
        if g in ("shape", "slots") and op not in (0, 1):
            continue  # the structural effect of ops 2..5 is that of op 1 (same VacantEntry::_insert path)
        h("entry_top%d_%s_n2" % (op, g), 6, "step::entry_top::<_, {%s}, %d, 2, 1, 4, 1>" % (const, op),
          list(props) + ["C20"], "quick",
          "%s; map.entry(p) then Entry::%s; %s; unwind 6" % (pre_txt(2, 1), nm, P8),
          ["PrefixMap::entry", "Entry::{get,key}", "Entry::" + nm, "VacantEntry::_insert", "OccupiedEntry::insert"] + INS, cost=120)
    for op, nm in enumerate(ENTRY_HANDLE):
        if g in ("shape", "slots") and op != 1:
            continue
        h("entry_handle%d_%s_n2" % (op, g), 6, "step::entry_handle::<_, {%s}, %d, 2, 1, 4, 1>" % (const, op),
          list(props) + ["C20"], "quick",
          "%s; map.entry(p), match on the handle, then %s; %s; unwind 6" % (pre_txt(2, 1), nm, P8),
          ["PrefixMap::entry", "OccupiedEntry::{key,get}", "VacantEntry::key", nm, "VacantEntry::_insert"] + INS, cost=120)

h("selftest_fail", 5, "obs::selftest_fail::<_, 2>", ["SELFTEST"], "quick",
  "N=2; deliberately false assertion to exercise playback+replay", ["PrefixMap::get"], cost=10)

REG = {
    "assumptions": {
        "*": [
            "bounded: P=(u8,u8) (all lengths 0..=8, all host bits), T=u8, arena of at most N slots as stated per harness; larger tries, other prefix types inside the trie code and value types with drop glue are outside the claim",
            "pre-states are arbitrary arenas satisfying WF (+FREE/CNT, PART/CANON where stated), injected through the verif-hooks accessor; lifting one-step results to histories of any length is a pen-and-paper induction over the step obligations",
            "Vec growth is cut by a checked stub of std::alloc::Global::grow_impl_runtime (capacity reserved by the hooks; if growth were reachable the harness is reported inconclusive); maps are mem::forget-ed at the end of a harness",
            "Kani 0.68 / CBMC 6.11 / CaDiCaL and rustc's MIR are trusted; allocation failure is out of scope",
        ]
    },
    "exhaustive_props": {"C17": True},
    "harnesses": H,
}

if __name__ == "__main__":
    with open(os.path.join(ROOT, "registry.json"), "w") as f:
        json.dump(REG, f, indent=1)
    with open(os.path.join(ROOT, "harness", "src", "registry.rs"), "w") as f:
        f.write("// GENERATED by /verif/mkreg.py -- do not edit. (name, unwind, growth cut, body)\nharnesses! {\n")
        for x in H:
            if x.get("crate") == "algebra":
                continue
            f.write("    (%s, %d, %s, %s),\n" % (x["name"], x["unwind"], x["stub_kind"], x["body"]))
        f.write("}\n")
    print("wrote registry.json / registry.rs with %d harnesses" % len(H))


# ------------------------------------------------------------------ MANIFEST.json
CLAIM_TEXT = {
    "C01": ("one-step simulation of the abstract map: from every well-formed arena of at most N slots (symbolic contents and topology) each mutator returns the abstract return value and leaves the abstract post-map (probe prefix), and each exact-match observer returns the abstract answer; decided by CBMC's SAT verdict over all inputs in the bound", "§4 C01"),
    "C04": ("len()/is_empty() delta of every mutator equals the abstract delta from every well-formed, count-consistent state of at most N slots", "§4 C04"),
    "C15": ("every mutator preserves WF (and CANON where the property demands it) from every WF arena of at most N slots; remove_keep_tree and value-only operations leave child pointers and prefixes unchanged", "§4 C15"),
    "C16": ("every mutator preserves the slot partition (reachable xor free, free list duplicate-free) and grows the arena only when the free list is empty, from every partitioned arena of at most N slots", "§4 C16"),
    "C18": ("stored representation component of the abstract map: observers return the stored bytes, inserting calls overwrite them with the argument's bytes, other calls leave them", "§4 C18"),
}
NOT_YET = "harnesses for this property are not built yet in this revision"


def manifest():
    props = [json.loads(l)["id"] for l in open(os.path.join(ROOT, "properties.jsonl"))]
    checks, na = [], []
    for p in props:
        quick = [x for x in H if p in x["props"] and x["tier"] == "quick"]
        if p in CLAIM_TEXT and quick:
            text, ref = CLAIM_TEXT[p]
            checks.append({
                "property_id": p,
                "quick_cmd": "./check %s --tier quick" % p,
                "thorough_cmd": "./check %s --tier thorough" % p,
                "evidence_file": "evidence/%s.json" % p,
                "replay_cmd_template": "./check %s --replay {path}" % p,
                "engine": "kani-cbmc",
                "level_claimed": {"category": "model_checking", "text": "bounded model checking of the compiled crate (Kani 0.68 -> CBMC 6.11 -> CaDiCaL): " + text, "design_ref": "DESIGN.md " + ref},
                "level_note": "bounds: P=(u8,u8) all lengths/host bits, T=u8, arenas of at most N slots (N per harness in the evidence); pre-states injected through the verif-hooks feature under the representation invariant; Vec growth/allocation cut by checked stubs; induction from steps to histories is on paper; trusted: Kani, CBMC, CaDiCaL, rustc MIR, the 150-line reference oracle in harness/src/{spec,oracle,arena}.rs",
                "technique": "SAT-based bounded model checking of the real code (Kani/CBMC) from symbolic invariant-constrained states; counterexamples replayed natively",
            })
        else:
            na.append({"property_id": p, "reason": NOT_YET})
    return {
        "version": 1,
        "setup_cmd": "./setup.sh",
        "hooks": {
            "guard": "cargo feature `verif-hooks` of prefix-trie",
            "enable": "the harness crate /verif/harness depends on /repo by path with features = [\"verif-hooks\"]; cargo kani rebuilds it from the working tree on every run",
            "baseline_off_cmd": "cd /repo && cargo test --workspace --no-fail-fast --offline",
            "source_commits": ["34f8a68", "57794d8"],
            "add_only": True,
        },
        "engines": [{"name": "kani-cbmc", "path": "/verif/check", "serves_properties": [c["property_id"] for c in checks],
                     "kind_free_text": "python driver -> cargo kani (one process per harness, parallel) -> CBMC/CaDiCaL; failing harnesses re-run with concrete playback and replayed natively by harness/src/bin/replay.rs"}],
        "checks": checks,
        "not_applicable": na,
        "notes": "see DESIGN.md; known_findings.json lists defects found (fixed ones carry the fix commit)",
    }


if __name__ == "__main__":
    with open(os.path.join(ROOT, "MANIFEST.json"), "w") as f:
        json.dump(manifest(), f, indent=1)
    print("wrote MANIFEST.json")
