#!/usr/bin/env python3
"""Single source of the harness table. Generates
  - registry.json            (metadata read by ./check)
  - harness/src/registry.rs  (the #[kani::proof] wrappers + native dispatch table)
Run after editing:  python3 mkreg.py
"""
import json, os

ROOT = os.path.dirname(os.path.abspath(__file__))
H = []


def h(name, unwind, body, props, tier, bounds, functions, cost=60, stub="nogrow", checks="lite", **kw):
    d = {"name": name, "unwind": unwind, "body": body, "props": props, "tier": tier, "checks": checks,
         "stub": stub != "nostub", "stub_kind": stub, "cost": cost, "functions": functions, "bounds": bounds}
    d.update(kw)
    assert name not in [x["name"] for x in H], name
    H.append(d)


P8 = "P=(u8,u8), all lengths 0..=8, all host bits; T=u8"
DESCENT = ["Table::get_direction", "Prefix::{eq,contains,is_bit_set,mask} for (u8,u8)"]
INS = ["Table::get_direction_for_insert", "PrefixMap::new_node", "Table::set_child", "Prefix::longest_common_prefix"]
INV_PROPS = ["C01", "C02", "C03", "C04", "C09", "C10", "C11", "C12", "C13", "C15", "C18", "C19", "C20"]
GROUPS = {"ret": ("step::RET", ["C01", "C18"]), "len": ("step::LEN", ["C04"]),
          "shape": ("step::SHAPE", list(dict.fromkeys(["C15"] + INV_PROPS))), "slots": ("step::SLOTS", list(dict.fromkeys(["C16"] + INV_PROPS)))}


def pre_txt(n, f):
    return "pre-state: any arena of N=%d slots with WF+FREE+CNT, free list <= %d, symbolic topology" % (n, f)


# ------------------------------------------------------------------ observers (C01, C02, C09, C18)
for n, tier, cost in ((3, "quick", 40), (4, "thorough", 150)):
    h("obs_get_n%d" % n, n + 2, "obs::get::<_, %d>" % n, ["C01", "C18", "C20"], tier,
      "any WF arena of N=%d slots; query any prefix; %s; unwind %d" % (n, P8, n + 2),
      ["PrefixMap::get", "PrefixMap::contains_key", "PrefixMap::get_key_value"] + DESCENT, cost=cost)

def obs(name, body, props, fns, sizes):
    for n, tier, cost in sizes:
        h("%s_n%d" % (name, n), n + 2, "obs::%s::<_, %d>" % (body, n), props + ["C20"], tier,
          "any WF arena of N=%d slots (symbolic topology, value-less nodes anywhere); query any prefix; %s; unwind %d" % (n, P8, n + 2), fns + DESCENT, cost=cost)


obs("obs_get_mut", "get_mut", ["C01", "C13", "C14", "C04"], ["PrefixMap::get_mut"], ((3, "quick", 40), (4, "thorough", 150)))
obs("entry_obs", "entry_obs", ["C01", "C18", "C04"], ["PrefixMap::entry", "Entry::{get,key}", "OccupiedEntry::{key,get}", "VacantEntry::key", "Table::get_direction_for_insert"], ((3, "quick", 40),))
obs("obs_lpm", "lpm", ["C02", "C18"], ["PrefixMap::get_lpm", "PrefixMap::get_lpm_prefix", "Node::prefix_value"], ((3, "quick", 60), (4, "thorough", 200)))
obs("obs_lpm_mut", "lpm_mut", ["C02", "C13", "C14"], ["PrefixMap::get_lpm_mut", "Node::prefix_value_mut"], ((3, "quick", 60), (4, "thorough", 200)))
obs("obs_spm", "spm", ["C09", "C18"], ["PrefixMap::get_spm", "PrefixMap::get_spm_prefix"], ((3, "quick", 60), (4, "thorough", 200)))
obs("obs_cover", "cover", ["C09", "C02", "C18"], ["PrefixMap::cover", "Cover::next"], ((3, "quick", 120), (4, "thorough", 400)))
h("cover_chain_n4", 6, "obs::cover_chain", ["C09", "C02", "C20"], "quick",
  "the 4-slot chain root->1->2->3 (concrete child indices; sides, prefixes, values symbolic): cover(q) whole iteration; smallest shape with two consecutive value-less non-root nodes on the path; unwind 6",
  ["PrefixMap::cover", "Cover::next", "Table::get_direction"], cost=200)
obs("obs_cover_proj", "cover_proj", ["C09"], ["PrefixMap::cover_keys", "PrefixMap::cover_values", "CoverKeys::next", "CoverValues::next"], ((2, "quick", 60),))
obs("obs_set", "set_obs", ["C01", "C02", "C09", "C18", "C04"], ["PrefixSet::{contains,get,get_lpm,get_spm,cover,len,is_empty}"], ((3, "quick", 120),))

# ------------------------------------------------------------------ single-map iterators
ITER_KINDS = [("iter", ["C03", "C18", "C04"], ["PrefixMap::iter", "Iter::next"]),
              ("iter_mut", ["C03", "C13", "C14"], ["PrefixMap::iter_mut", "IterMut::next", "Table::get_mut"]),
              ("into_iter", ["C03"], ["PrefixMap::into_iter", "IntoIter::next", "Table::into_inner"]),
              ("keys_values_clone", ["C03"], ["<&PrefixMap>::into_iter", "PrefixMap::keys", "PrefixMap::values", "Keys::next", "Values::next", "Iter::clone"])]
for kind, (nm, props, fns) in enumerate(ITER_KINDS):
    for n, tier, cost in ((3, "quick", 300), (4, "thorough", 1200)):
        if kind == 3 and n == 4:
            continue
        if kind == 3:
            n = 2
        h("whole_%s_n%d" % (nm, n), n + 3, "iters::whole::<_, %d, %d>" % (kind, n), props + ["C20"], tier,
          "any WF arena of N=%d slots; full traversal through the real constructor (stack re-homed into reserved capacity), probe prefix; %s; unwind %d" % (n, P8, n + 3), fns, cost=cost,
          stub="growmodel" if kind == 3 else "nogrow")
PROJ = [("keys / values / (&map).into_iter / Keys::clone (taken after the first item)", ["PrefixMap::{iter,keys,values}", "<&PrefixMap>::into_iter", "Keys::next", "Values::next", "Keys::clone", "Iter::clone"]),
        ("values_mut / into_keys / into_values (owned ones on maps with an arbitrary entry counter)", ["PrefixMap::{iter,values_mut,into_keys,into_values}", "ValuesMut::next", "IntoKeys::next", "IntoValues::next", "IntoIter::next"]),
        ("set iter / (&set).into_iter / set.into_iter", ["PrefixSet::iter", "<&PrefixSet>::into_iter", "<PrefixSet>::into_iter", "set::Iter::next", "set::IntoIter::next"])]
for kind, (what, fns) in enumerate(PROJ):
    h("proj%d_n2" % kind, 5, "iters::proj::<_, %d, 2>" % kind, ["C03", "C20"] + (["C13"] if kind == 1 else []), "quick",
      "any WF arena of N=2 slots (root with at most one child: the real `vec![0]` stacks never grow); %s through the real constructors, item by item against iter() (itself decided against the entry oracle by whole_iter_n3, whose arenas include these shapes); %s; unwind 5" % (what, P8),
      fns, cost=100)
CH_KINDS = [("children", ["C10", "C18"], ["PrefixMap::children", "lpm_children_iter_start", "Iter::next"]),
            ("children_mut", ["C10", "C13"], ["PrefixMap::children_mut", "lpm_children_iter_start", "IterMut::next"]),
            ("into_children", ["C10"], ["PrefixMap::into_children", "lpm_children_iter_start", "IntoIter::next"])]
for kind, (nm, props, fns) in enumerate(CH_KINDS):
    for n, tier, cost in ((3, "quick", 300), (4, "thorough", 1200)):
        h("%s_n%d" % (nm, n), n + 3, "iters::children::<_, %d, %d>" % (kind, n), props + ["C20"], tier,
          "any WF arena of N=%d slots; any selector prefix (stored, branching, on an edge, absent, zero-length, host bits); full traversal; %s; unwind %d" % (n, P8, n + 3), fns, cost=cost)
for kind, nm in enumerate(("iter", "iter_mut")):
    for n, k, tier, cost in ((3, 2, "quick", 200), (4, 2, "thorough", 800)):
        h("step_%s_n%d" % (nm, n), n + 2, "iters::step::<_, %d, %d, %d, %d>" % (kind, n, k, k + 1), ["C03", "C14", "C13", "C10", "C20"], tier,
          "any WF arena of N=%d slots and any injected stack of <= %d entries satisfying StackInv; one next(); probe slot; unwind %d" % (n, k, n + 2),
          ["Iter::next" if kind == 0 else "IterMut::next"], cost=cost)

# ------------------------------------------------------------------ equality, clone, rebuild, retain
h("eq_map_n2", 6, "misc::eq_map::<_, 2>", ["C19", "C20"], "quick",
  "two WF arenas of N=2 slots each; `==` and `!=` through the real iter() constructors (allocator model for the growing stacks); %s; unwind 6" % P8,
  ["<PrefixMap as PartialEq>::eq", "PrefixMap::iter", "Iter::next", "Iterator::eq"], cost=300, stub="growmodel")
h("eq_map_n1", 4, "misc::eq_map::<_, 1>", ["C19", "C20"], "quick",
  "two root-only arenas (any host bits, any value / none): `==` and `!=` through the real iter() constructors; covers empty vs non-empty and equal key with different host bits; unwind 4",
  ["<PrefixMap as PartialEq>::eq", "PrefixMap::iter", "Iter::next", "Iterator::eq"], cost=60, stub="growmodel")
h("eq_set_n1", 4, "misc::eq_set::<_, 1>", ["C19", "C20"], "quick",
  "two root-only arenas (T=()): PrefixSet `==`; unwind 4", ["<PrefixSet as PartialEq>::eq", "set::Iter::next"], cost=60, stub="growmodel")
for op, nm in enumerate(("insert", "remove", "remove_keep_tree", "entry().or_insert")):
    h("hist2_%d" % op, 6, "misc::hist2::<_, %d>" % op, ["C01", "C04", "C15", "C16", "C18", "C20"], "quick",
      "bounded history without any invariant: empty map (capacity reserved) -> insert(p1,v1) -> %s(p2,..) -> lookups, len; %s; unwind 6" % (nm, P8),
      ["PrefixMap::insert", "PrefixMap::" + nm], cost=300)
h("rebuild2", 6, "misc::rebuild2", ["C19", "C15", "C04", "C20"], "thorough",
  "two maps built from the same two symbolic entries in opposite orders (capacity reserved): read-back of both arenas, same entries and same node set; unwind 6",
  ["PrefixMap::insert"], cost=700)
h("eq_map_n3", 7, "misc::eq_map::<_, 3>", ["C19"], "thorough", "two WF arenas of N=3 slots each; `==`/`!=`; unwind 7",
  ["<PrefixMap as PartialEq>::eq", "PrefixMap::iter", "Iter::next"], cost=1500, stub="growmodel")
h("eq_set_n2", 6, "misc::eq_set::<_, 2>", ["C19", "C20"], "quick",
  "two WF arenas (T=()) of N=2 slots each; PrefixSet `==`; unwind 6", ["<PrefixSet as PartialEq>::eq", "set::Iter::next"], cost=300, stub="growmodel")
h("clone_n3", 5, "misc::clone_indep::<_, 3>", ["C19", "C04", "C20"], "quick",
  "any WF arena of N=3 slots; clone(), then writes/removals on either side; read-back of both arenas; unwind 5",
  ["<PrefixMap as Clone>::clone", "<Table as Clone>::clone", "PrefixMap::get_mut", "PrefixMap::remove_keep_tree"], cost=100)
h("clone_from_n2", 4, "misc::clone_from::<_, 2>", ["C19", "C04", "C20"], "quick",
  "two WF arenas of N=2 slots each (source and a destination that already holds entries); dst.clone_from(&src) (also the body of ToOwned::clone_into); read-back of the destination arena, len(), probe lookup, source unchanged; unwind 4",
  ["<PrefixMap as Clone>::clone_from", "<Table as Clone>::clone", "Vec::<Node>::clone", "drop of the previous destination arena"], cost=60)
h("collect2", 8, "misc::collect2", ["C01", "C04", "C18", "C19", "C20"], "quick",
  "bounded history from new(): FromIterator over two symbolic (prefix, value) pairs in both orders, lookups, `==`; real Vec growth through the allocator model; %s; unwind 8" % P8,
  ["<PrefixMap as FromIterator>::from_iter", "PrefixMap::new", "PrefixMap::insert", "<PrefixMap as PartialEq>::eq"], cost=400, stub="growmodel")
for n, f, tier, cost, mem in ((2, 0, "quick", 200, 12), (3, 0, "thorough", 2400, 28)):
    h("retain_n%d" % n, n + 1, "misc::retain::<_, false, false, %d, %d>" % (n, f), ["C10", "C01", "C04", "C20"], tier,
      "%s; retain with a predicate returning the k-th of %d symbolic decisions; calls counted per entry; final state: probe lookup, len; recursion depth <= %d; unwind %d" % (pre_txt(n, f), n, n, n + 2),
      ["PrefixMap::retain", "PrefixMap::_retain", "PrefixMap::_remove_node"], cost=cost, mem_gb=mem, optional=(n == 3))
    h("retain_struct_n%d" % n, n + 1, "misc::retain::<_, false, true, %d, %d>" % (n, f), ["C15", "C16", "C10", "C20"], tier,
      "%s; retain with a predicate returning the k-th of %d symbolic decisions; final state: WF, CANON (if canonical before), slot partition; unwind %d" % (pre_txt(n, f), n, n + 2),
      ["PrefixMap::retain", "PrefixMap::_retain", "PrefixMap::_remove_node"], cost=cost, mem_gb=mem, optional=(n == 3))
for n, tier, cost in ((2, "quick", 200), (3, "thorough", 1500)):
    h("retain_lite_n%d" % n, n + 1, "misc::retain_lite::<_, false, %d>" % n, ["C10", "C01", "C04", "C20"], tier,
      "%s; retain(keep even values): values are symbolic, so every combination of decisions is covered; calls counted, len, probe lookup; recursion depth <= %d; unwind %d" % (pre_txt(n, 0), n, n + 1),
      ["PrefixMap::retain", "PrefixMap::_retain", "PrefixMap::_remove_node"], cost=cost, mem_gb=(12 if n == 2 else 30), optional=(n == 3))
    h("retain_lite_struct_n%d" % n, n + 1, "misc::retain_lite::<_, true, %d>" % n, ["C15", "C16", "C10", "C20"], tier,
      "%s; retain(keep even values); final state: WF, CANON (if canonical before), slot partition; unwind %d" % (pre_txt(n, 0), n + 2),
      ["PrefixMap::retain", "PrefixMap::_retain", "PrefixMap::_remove_node"], cost=cost, mem_gb=(12 if n == 2 else 30), optional=(n == 3))
h("retain_obs_n2", 3, "misc::retain::<_, true, false, 2, 0>", ["C20", "C10"], "quick",
  "%s; retain with a predicate that reads the whole arena back at every invocation (models a panic at that invocation): WF, counter, entries = previous minus already rejected; unwind 4" % pre_txt(2, 0),
  ["PrefixMap::retain", "PrefixMap::_retain", "PrefixMap::_remove_node"], cost=300, mem_gb=16)

for kind, (nm, props, fns) in enumerate(CH_KINDS):
    for n, tier, cost in ((3, "quick", 60), (4, "thorough", 200)):
        h("children_init%d_n%d" % (kind, n), n + 2, "iters::children_init::<_, %d, %d>" % (kind, n), ["C10", "C20"], tier,
          "any WF arena of N=%d slots; any selector; the start stack of %s read back (Init obligation; the traversal from a one-entry stack is C03 Step); unwind %d" % (n, nm, n + 2),
          fns[:2], cost=cost)
for n, tier, cost in ((3, "thorough", 1500), (4, "thorough", 3000)):
    h("split_interleave_n%d" % n, 2 * n + 2, "misc::split_interleave::<_, %d>" % n, ["C14", "C11", "C13", "C20"], tier,
      "any WF arena of N=%d slots, any node with two children; split(), two IterMut advanced by %d symbolic scheduling decisions, then drained; arena read-back vs sequential result; unwind %d" % (n, 2 * n, 2 * n + 2),
      ["TrieViewMut::split", "<TrieViewMut as IntoIterator>::into_iter", "IterMut::next", "Table::get_mut"], cost=cost, stub="growmodel", optional=True)
h("canon_unique_n4", 6, "misc::canon_unique::<_, 4>", ["C15"], "quick",
  "specification-level lemma over two arenas of N=4 slots (no code under test): CANON + equal key sets => equal node sets", [], cost=30)

# ------------------------------------------------------------------ C20: handle sequences, callbacks
h("occ_seq_plain_n2", 4, "c20::occ_seq::<_, false, 255, 2>", ["C20", "C04"], "quick",
  "any WF arena of N=2 slots; entry(p) occupied, then two consecutive calls out of {get,get_mut,key} x {get,get_mut,key,remove,insert}; unwind 4",
  ["PrefixMap::entry", "OccupiedEntry::{get,get_mut,key,remove,insert}"], cost=60)
for op2, nm in ((0, "get"), (1, "get_mut"), (2, "key"), (3, "remove"), (4, "insert")):
    h("occ_seq_after_remove_%s_n2" % nm, 4, "c20::occ_seq::<_, true, %d, 2>" % op2, ["C20", "C04"], "quick",
      "any WF arena of N=2 slots; entry(p) occupied, remove() followed by %s() on the same handle; unwind 4" % nm,
      ["PrefixMap::entry", "OccupiedEntry::remove", "OccupiedEntry::" + nm], cost=40)
h("view_set_then_remove_n2", 4, "c20::view_set_then_remove::<_, 2>", ["C20", "C04", "C01", "C13"], "quick",
  "any WF arena of N=2 slots; TrieViewMut::set on a value-less node, then PrefixMap::remove of that key; unwind 4",
  ["TrieViewMut::set", "PrefixMap::remove", "PrefixMap::_remove_node"], cost=60)
for op, nm in enumerate(("or_insert_with", "insert_with", "and_modify")):
    h("entry_callback%d_n2" % op, 4, "c20::entry_callback::<_, %d, 2>" % op, ["C20", "C01"], "quick",
      "any WF arena of N=2 slots; Entry::%s with a closure that compares the whole arena with the pre-state when invoked (models a panic at that point); unwind 4" % nm,
      ["PrefixMap::entry", "Entry::" + nm, "VacantEntry::_insert"], cost=60)

# ------------------------------------------------------------------ C17: prefix algebra, full width
ALG = [("u8", "(u8, u8)", 1, True), ("u16", "(u16, u8)", 2, True), ("u32", "(u32, u8)", 4, True), ("u64", "(u64, u8)", 8, True),
       ("u128", "(u128, u8)", 16, True), ("usize", "(usize, u8)", 8, True),
       ("ipv4net", "ipnet::Ipv4Net", 4, True), ("ipv6net", "ipnet::Ipv6Net", 16, True),
       ("ipv4network", "ipnetwork::Ipv4Network", 4, True), ("ipv6network", "ipnetwork::Ipv6Network", 16, True),
       ("ipv4cidr", "cidr::Ipv4Cidr", 4, False), ("ipv6cidr", "cidr::Ipv6Cidr", 16, False),
       ("ipv4inet", "cidr::Ipv4Inet", 4, True), ("ipv6inet", "cidr::Ipv6Inet", 16, True)]
for nm, ty, nbytes, keeps in ALG:
    h("alg_" + nm, 18, "algebra::algebra::<_, %s, %d, %s>" % (ty, nbytes, str(keeps).lower()), ["C17", "C20"], "quick",
      "three arbitrary prefixes of type %s (every %d-bit representation incl. host bits, every length 0..=%d) and every bit index 0..=255: the whole input space, no loop in the code under test (unwind 18 only bounds the harness' byte assembly)" % (ty, nbytes * 8, nbytes * 8),
      ["<%s as Prefix>::{from_repr_len,repr,prefix_len,mask,zero,contains,longest_common_prefix,is_bit_set,eq}" % ty, "prefix::mask_from_prefix_len"],
      cost=40, stub="nostub", checks="lite", checks_thorough="default")

# ------------------------------------------------------------------ set operations (Init + Step)
FAMS = [("union", 0, "C05", ["TrieView::union", "Union::next", "union::{next_indices,next_indices_first_l,next_indices_first_r,extend_lpm}"],
         ["TrieViewMut::union_mut", "UnionMut::next", "union::next_indices*"]),
        ("inter", 1, "C06", ["TrieView::intersection", "Intersection::next", "intersection::{next_indices,next_indices_first_a,next_indices_first_b}"],
         ["TrieViewMut::intersection_mut", "IntersectionMut::next", "intersection::next_indices*"]),
        ("diff", 2, "C07", ["TrieView::difference", "Difference::next", "difference::{next_indices,next_indices_first_a,next_indices_first_b,extend_lpm}"],
         ["TrieViewMut::difference_mut", "DifferenceMut::next", "difference::next_indices*"]),
        ("covdiff", 3, "C07", ["TrieView::covering_difference", "CoveringDifference::next", "difference::next_indices*"],
         ["TrieViewMut::covering_difference_mut", "CoveringDifferenceMut::next", "difference::next_indices*"])]
for fam, code, cprop, fro, fmu in FAMS:
    for mut in (False, True):
        m = "mut" if mut else "ro"
        props = [cprop, "C18", "C20"] + (["C13", "C14"] if mut else []) + (["C08"] if fam in ("union", "diff") else [])
        for n, k, tier, cost in ((2, 1, "quick", 200), (3, 2, "thorough", 1500)):
            h("%s_init_%s_n%d" % (fam, m, n), n + 3, "setops::run::<_, %d, %s, true, %s, 255, %d, 1, 3>" % (code, str(mut).lower(), str(fam == "diff" or (fam == "union" and not mut)).lower(), n), props, tier,
              "two WF arenas of N=%d slots each, any pair of view locations (node or virtual, any roots); the real constructor; stack read back; entry probes; %s; unwind %d" % (n, P8, n + 3),
              (fmu if mut else fro)[:1] + (fmu if mut else fro)[2:], cost=cost // 2, stub="growmodel")
            h("%s_step_%s_n%d" % (fam, m, n), n + 3, "setops::run::<_, %d, %s, false, %s, 255, %d, %d, %d>" % (code, str(mut).lower(), str(fam == "diff" or (fam == "union" and not mut)).lower(), n, k, k + 3), props, tier,
              "two WF arenas of N=%d slots each, any pair of view locations, any injected stack of <= %d entries satisfying StackInv; one next(); stack read back; entry probes; %s; unwind %d" % (n, k, P8, n + 3),
              (fmu if mut else fro)[1:], cost=cost, stub="growmodel")

# Step bounded to at most two consecutive loop bodies of next() (K <= 1 non-emitting pops, DESIGN.md §3.8): the
# per-loop bound is enforced by unwinding *assumptions* (kani --no-unwinding-checks), i.e. calls that need more
# bodies are outside this instance's claim; the unbounded-K instances are in the thorough tier.
for fam, code, itname in (("covdiff", 3, "CoveringDifference<"), ("diff", 2, "Difference<")):
    h("%s_stepk1_ro_n2" % fam, 5, "setops::run::<_, %d, false, false, %s, 255, 2, 1, 4>" % (code, "true" if fam == "diff" else "false"),
      ["C07", "C18", "C20"] + (["C08"] if fam == "diff" else []), "thorough",
      "two WF arenas of N=2 slots each, any pair of view locations, any injected stack of <= 1 entry satisfying StackInv; one next() restricted to calls that finish within two loop bodies (unwinding assumption on the loop of next()); stack read back; entry probes; unwind 5, next() loop 3",
      [itname.rstrip("<") + "::next", "difference::{next_indices,next_indices_first_a,next_indices_first_b" + (",extend_lpm}" if fam == "diff" else "}")],
      cost=300, stub="growmodel", kani_args=["--no-unwinding-checks"],
      unwindset=[{"file": "trieview/difference.rs", "func": itname + ".*Iterator>::next", "bound": 3}])

HELPERS = {"union": (0, "C05", ["next_indices", "next_indices_first_l", "next_indices_first_r"]),
           "inter": (1, "C06", ["next_indices", "next_indices_first_a", "next_indices_first_b"]),
           "diff": (2, "C07", ["next_indices", "next_indices_first_a", "next_indices_first_b"])}
for fam, (code, cprop, fns) in HELPERS.items():
    for which, fn in enumerate(fns):
        for n, tier, cost in ((2, "quick", 60), (3, "quick", 120), (4, "thorough", 600)):
            h("%s_helper%d_n%d" % (fam, which, n), n + 2, "setops::helper::<_, %d, %d, %d>" % (code, which, n), [cprop, "C18", "C20"], tier,
              "two WF arenas of N=%d slots each, any pair of reachable nodes%s; the private helper called through its verif-hooks wrapper; returned entries vs scope oracle (two probes); unwind %d"
              % (n, "" if which == 0 else " in the strict-cover relation the helper expects", n + 2),
              ["trieview::%s::%s" % ({"union": "union", "inter": "intersection", "diff": "difference"}[fam], fn)], cost=cost, stub="growmodel")

h("union_whole_n1", 6, "setops::union_whole::<_, 1>", ["C05", "C08", "C18", "C20"], "quick",
  "two root-only arenas (N=1 each, any host bits / values, at least one root valued): union() from the real constructor, first item and exhaustion; unwind 6, next() loop 1",
  ["TrieView::union", "Union::next (Both arm)", "Union::get_next", "union::{next_indices,extend_lpm}"], cost=60, stub="growmodel",
  unwindset=[{"file": "trieview/union.rs", "func": "Union<.*Iterator>::next", "bound": 1}])
h("union_whole_n2", 8, "setops::union_whole::<_, 2>", ["C05", "C08", "C18", "C20"], "thorough",
  "two WF arenas of N=2 slots each, whole-map views: full union traversal from the real constructor (reaches next_indices_first_l/_r); unwind 8",
  ["TrieView::union", "Union::next", "union::{next_indices,next_indices_first_l,next_indices_first_r,extend_lpm}"], cost=3000, stub="growmodel", optional=True, mem_gb=40)

# Union / UnionMut Step is too large as one query (all five arms x several loop bodies): one instance per
# kind of the top entry, the top entry yields at once, exactly one body of next() (per-loop unwind bound).
UKINDS = ["Both", "FirstL", "FirstR", "OnlyL", "OnlyR"]
for mut in (False, True):
    m = "mut" if mut else "ro"
    for kind, kn in enumerate(UKINDS):
        for n, tier, cost in ((2, "quick", 250), (3, "thorough", 1500)):
            h("union_step%d_%s_n%d" % (kind, m, n), n + 3, "setops::run::<_, 0, %s, false, %s, %d, %d, 1, 4>" % (str(mut).lower(), str(not mut).lower(), kind, n),
              ["C05", "C18", "C20"] + (["C13", "C14"] if mut else ["C08"]), tier,
              "two WF arenas of N=%d slots each, any pair of view locations, a one-entry stack whose entry is %s(l,r) (any l,r satisfying StackInv) and yields an item at once; exactly one loop body of next(); %s; unwind %d, next() loop 1" % (n, kn, P8, n + 3),
              ["UnionMut::next" if mut else "Union::next", "union::{next_indices,next_indices_first_l,next_indices_first_r,extend_lpm}"], cost=cost, stub="growmodel", optional=True, mem_gb=30,
              unwindset=[{"file": "trieview/union.rs", "func": ("UnionMut<" if mut else "Union<") + ".*Iterator>::next", "bound": 1}])

# ------------------------------------------------------------------ views
VIEW_LOC = "any view location: Node(i) for reachable i or Virtual(p,i) with p strictly covering node i"
for mut in (False, True):
    m = "mut" if mut else "ro"
    fn = "AsViewMut::view_mut_at" if mut else "AsView::view_at"
    for n, tier, cost in ((3, "quick", 80), (4, "thorough", 300)):
        h("view_at_%s_n%d" % (m, n), n + 2, "views::view_at::<_, %s, %d>" % (str(mut).lower(), n), ["C11", "C18", "C20"], tier,
          "any WF arena of N=%d slots; any query; region probe; %s; unwind %d" % (n, P8, n + 2),
          [fn, ("TrieViewMut" if mut else "TrieView") + "::{find,prefix,value}", "Table::get_direction_for_insert"], cost=cost)
        h("view_nav_%s_n%d" % (m, n), n + 2, "views::nav::<_, %s, %d>" % (str(mut).lower(), n), ["C11", "C14", "C20"], tier,
          "any WF arena of N=%d slots; %s; entry probe; unwind %d" % (n, VIEW_LOC, n + 2),
          [("TrieViewMut" if mut else "TrieView") + "::{left,right" + (",split,has_left,has_right}" if mut else "}")], cost=cost)
    for op, nm in enumerate(("find", "find_exact", "find_lpm", "view_at on a view")):
        for n, tier, cost in ((3, "quick", 100), (4, "thorough", 400)):
            h("view_find%d_%s_n%d" % (op, m, n), n + 2, "views::find::<_, %s, %d, %d>" % (str(mut).lower(), op, n), ["C12", "C14", "C20"] + (["C11"] if op in (0, 3) else []), tier,
              "any WF arena of N=%d slots; %s; any query (inside, covering, disjoint); entry probe; unwind %d" % (n, VIEW_LOC, n + 2),
              [("TrieViewMut::" if mut else "TrieView::") + nm, "Table::get_direction", "Table::get_direction_for_insert"], cost=cost)
for op, nm in enumerate(("value_mut", "prefix_value_mut", "set", "remove")):
    h("view_access%d_n3" % op, 5, "views::access::<_, %d, 3>" % op, ["C13", "C14", "C04", "C11", "C15", "C18", "C20"], "quick",
      "any WF arena of N=3 slots; %s; TrieViewMut::%s then arena read-back; unwind 5" % (VIEW_LOC, nm),
      ["TrieViewMut::{value,prefix,prefix_value,node_mut," + nm + "}", "Table::get_mut"], cost=60)

# ------------------------------------------------------------------ mutator steps, one instance per assertion group
def step(op, n, f, tier, cost, extra_props=(), groups=("ret", "len", "shape", "slots")):
    for g in groups:
        const, props = GROUPS[g]
        props = list(dict.fromkeys(list(props) + ["C20"] + list(extra_props)))
        if op == "insert":
            m, gg = n + 2, max(f, 1)
            body = "step::insert::<_, {%s}, %d, %d, %d, %d>" % (const, n, f, m, gg)
            fns = ["PrefixMap::insert"] + INS
            unwind = m + 2
        elif op == "remove":
            gg = n - 1
            body = "step::remove::<_, {%s}, %d, %d, %d>" % (const, n, f, gg)
            fns = ["PrefixMap::remove", "PrefixMap::_remove_node", "Table::clear_child"] + DESCENT
            unwind = n + 2
        elif op == "rkt":
            body = "step::remove_keep_tree::<_, {%s}, %d, %d>" % (const, n, f)
            fns = ["PrefixMap::remove_keep_tree"] + DESCENT
            unwind = n + 2
        elif op == "rmchildren":
            gg = n - 1
            body = "step::remove_children::<_, {%s}, %d, %d, %d>" % (const, n, f, gg)
            fns = ["PrefixMap::remove_children", "PrefixMap::_do_remove_children", "PrefixMap::clear", "Table::get_direction_for_insert"]
            unwind = n + 2
        else:
            raise ValueError(op)
        h("%s_%s_n%d" % (op, g, n), unwind, body, props, tier,
          "%s; one %s with symbolic arguments; %s; unwind %d" % (pre_txt(n, f), op, P8, unwind), fns, cost=cost)


step("insert", 2, 1, "quick", 120)
step("insert", 3, 2, "thorough", 300)
step("remove", 3, 1, "quick", 90)
step("remove", 4, 1, "quick", 270, groups=("shape", "slots"))
step("remove", 4, 1, "thorough", 270, groups=("ret", "len"))
step("rkt", 3, 1, "quick", 50)
step("rmchildren", 3, 1, "quick", 200, extra_props=["C10"])
h("clear_n3", 5, "step::clear::<_, 3, 1>", ["C01", "C04", "C15", "C16", "C20"], "quick",
  pre_txt(3, 1) + "; clear(); unwind 5", ["PrefixMap::clear"], cost=20)

ENTRY_TOP = ["insert", "or_insert", "or_insert_with", "or_default", "and_modify+or_insert", "get_mut-write"]
ENTRY_HANDLE = ["Occupied::insert / Vacant::insert", "Occupied::remove / Vacant::insert_with", "Occupied::get_mut / Vacant::default"]
for g in ("ret", "len", "shape", "slots"):
    const, props = GROUPS[g]
    for op, nm in enumerate(ENTRY_TOP):
        if g in ("shape", "slots") and op not in (0, 1):
            continue  # the structural effect of ops 2..5 is that of op 1 (same VacantEntry::_insert path)
        h("entry_top%d_%s_n2" % (op, g), 6, "step::entry_top::<_, {%s}, %d, 2, 1, 4, 1>" % (const, op),
          list(props) + ["C20"], "quick",
          "%s; map.entry(p) then Entry::%s; %s; unwind 6" % (pre_txt(2, 1), nm, P8),
          ["PrefixMap::entry", "Entry::{get,key}", "Entry::" + nm, "VacantEntry::_insert", "OccupiedEntry::insert"] + INS, cost=120)
    for op, nm in enumerate(ENTRY_HANDLE):
        if g in ("shape", "slots") and op != 1:
            continue
        h("entry_handle%d_%s_n2" % (op, g), 6, "step::entry_handle::<_, {%s}, %d, 2, 1, 4, 1>" % (const, op),
          list(props) + ["C20"], "quick",
          "%s; map.entry(p), match on the handle, then %s; %s; unwind 6" % (pre_txt(2, 1), nm, P8),
          ["PrefixMap::entry", "OccupiedEntry::{key,get}", "VacantEntry::key", nm, "VacantEntry::_insert"] + INS, cost=120)

h("selftest_fail", 5, "obs::selftest_fail::<_, 2>", ["SELFTEST"], "quick",
  "N=2; deliberately false assertion to exercise playback+replay", ["PrefixMap::get"], cost=10)

H[:] = [x for x in H if not (x["name"].startswith("union_step_") and True)]

# ------------------------------------------------------------------ quick tier: curated per property
# (the thorough tier of a property runs every harness that lists it)
QUICK = {
    "C01": ["obs_get_n4", "entry_obs_n3", "insert_ret_n2", "remove_ret_n3", "remove_ret_n4", "rkt_ret_n3", "rmchildren_ret_n3", "clear_n3", "hist2_1", "obs_get_mut_n4"],
    "C02": ["obs_lpm_n3", "obs_lpm_n4", "obs_lpm_mut_n4", "obs_cover_n3", "cover_chain_n4"],
    "C03": ["whole_iter_n3", "whole_iter_mut_n3", "whole_into_iter_n3", "step_iter_n4", "step_iter_mut_n4", "proj1_n2"],
    "C04": ["insert_len_n2", "remove_len_n3", "rkt_len_n3", "clear_n3", "entry_top0_len_n2", "entry_handle1_len_n2", "clone_n3",
            "view_access[23]_n3", "occ_seq_plain_n2"],
    "C05": ["union_init_ro_n2", "union_init_(ro|mut)_n3", "union_helper0_n[34]", "union_whole_n1"],
    "C06": ["inter_init_(ro|mut)_n3", "inter_step_ro_n2", "inter_helper[012]_n4"],
    "C07": ["(diff|covdiff)_init_(ro|mut)_n3", "diff_helper[012]_n4", "covdiff_stepk1_ro_n2"],
    "C08": ["union_init_ro_n[23]", "diff_init_(ro|mut)_n3", "union_whole_n1"],
    "C09": ["obs_spm_n3", "obs_spm_n4", "obs_cover_n3", "cover_chain_n4"],
    "C10": ["children_init[012]_n4", "step_iter_n4", "rmchildren_ret_n3", "rmchildren_slots_n3", "retain_lite_n2", "retain_n2"],
    "C11": ["view_at_(ro|mut)_n4", "view_nav_(ro|mut)_n4", "view_find[03]_(ro|mut)_n4", "view_access[0-3]_n3"],
    "C12": ["view_find[0-3]_(ro|mut)_n4"],
    "C13": ["obs_get_mut_n4", "obs_lpm_mut_n4", "whole_iter_mut_n3", "step_iter_mut_n4", "view_access[0-3]_n3", "(union|inter|diff|covdiff)_init_mut_n3", "inter_step_mut_n2"],
    "C14": ["whole_iter_mut_n3", "step_iter_mut_n4", "view_nav_mut_n4", "view_find[02]_mut_n4", "view_access0_n3", "inter_init_mut_n3", "obs_get_mut_n4"],
    "C15": ["insert_shape_n2", "remove_shape_n[34]", "rkt_shape_n3", "clear_n3", "entry_top0_shape_n2", "retain_lite_struct_n2", "canon_unique_n4"],
    "C16": ["insert_slots_n2", "remove_slots_n[34]", "rkt_slots_n3", "rmchildren_slots_n3", "clear_n3", "entry_handle1_slots_n2"],
    "C17": ["alg_.*"],
    "C18": ["obs_get_n4", "obs_lpm_n3", "entry_obs_n3", "insert_ret_n2", "view_at_ro_n4", "union_whole_n1", "inter_helper0_n4"],
    "C19": ["eq_map_n1", "eq_set_n1", "clone_n3", "clone_from_n2"],
    "C20": ["retain_obs_n2", "alg_u8", "obs_get_n3", "entry_obs_n3", "remove_ret_n3", "occ_seq_plain_n2", "occ_seq_after_remove_.*_n2", "view_set_then_remove_n2", "entry_callback0_n2"],
    "SELFTEST": ["selftest_fail"],
}
import re as _re
# every history-quantified property also runs the cheapest invariant-preservation harness
for _p in INV_PROPS:
    QUICK[_p] = QUICK[_p] + ["remove_slots_n3"]
for x in H:
    if x["name"] in ("eq_map_n2", "eq_set_n2", "eq_map_n3", "collect2", "whole_keys_values_clone_n2"):
        x["optional"] = True
    if _re.fullmatch(r"union_helper[12]_n\d", x["name"]):
        x["optional"] = True
        x["mem_gb"] = 30
        x["note"] = "known to exceed memory in CBMC's post-processing (DESIGN.md, C05): reported inconclusive, does not fail the run"
for x in H:
    x["quick_for"] = [p for p in x["props"] if any(_re.fullmatch(pat, x["name"]) for pat in QUICK.get(p, []))]
# ------------------------------------------------------------------ thorough tier = quick list + deeper instances
THOROUGH_EXTRA = {
    "C01": ["obs_get_n3", "obs_get_mut_n3", "obs_set_n3", "rmchildren_ret_n3", "entry_top[01]_ret_n2", "entry_handle[01]_ret_n2", "retain_lite_n2", "hist2_0", "remove_shape_n3",
            "obs_get_n4", "obs_get_mut_n4", "insert_ret_n3", "remove_ret_n4", "entry_top[2-5]_ret_n2", "entry_handle2_ret_n2", "hist2_[23]",
            "collect2", "retain_n2", "retain_lite_n3", "retain_n3"],
    "C02": ["obs_set_n3", "obs_lpm_mut_n3", "obs_cover_n4", "cover_chain_n4", "remove_shape_n3"],
    "C03": ["remove_shape_n3", "whole_.*_n4", "step_iter.*_n3", "whole_keys_values_clone_n2", "proj[02]_n2"],
    "C04": ["clone_from_n2", "rmchildren_len_n3", "entry_top1_len_n2", "entry_handle0_len_n2", "retain_lite_n2", "hist2_1", "obs_set_n3", "remove_shape_n3", "insert_len_n3", "remove_len_n4", "entry_top[2-5]_len_n2", "entry_handle2_len_n2", "view_access[01]_n3", "hist2_[023]", "rebuild2",
            "retain_n2", "collect2", "obs_get_mut_n4", "whole_iter_n3"],
    "C05": ["union_init_mut_n2", "union_helper0_n2", "union_helper[12]_n[234]", "union_step[0-4]_(ro|mut)_n2", "union_whole_n2"],
    "C06": ["inter_step_mut_n2", "inter_init_(ro|mut)_n2", "inter_step_(ro|mut)_n3", "inter_helper[012]_n[23]"],
    "C07": ["diff_step_(ro|mut)_n2", "covdiff_step_(ro|mut)_n2", "(diff|covdiff)_stepk1_ro_n2", "(diff|covdiff)_init_(ro|mut)_n2", "(diff|covdiff)_step_(ro|mut)_n3", "diff_helper[012]_n[23]"],
    "C08": ["diff_step_(ro|mut)_n2", "diff_stepk1_ro_n2", "diff_init_(ro|mut)_n2", "union_step[0-4]_ro_n2", "union_whole_n2"],
    "C09": ["obs_cover_proj_n2", "obs_set_n3", "obs_cover_n4", "remove_shape_n3"],
    "C10": ["rmchildren_slots_n3", "retain_n2", "remove_shape_n3", "children_n[34]", "children_mut_n[34]", "into_children_n[34]", "children_init[012]_n3", "step_iter_n3", "retain_struct_n2", "retain_n3", "retain_lite_n3",
            "rmchildren_(len|shape)_n3", "step_iter_n4"],
    "C11": ["remove_shape_n3", "view_at_(ro|mut)_n3", "view_nav_(ro|mut)_n3", "view_find[03]_(ro|mut)_n3", "view_find[03]_mut_n4", "view_access[13]_n3"],
    "C12": ["remove_shape_n3", "view_find[0-3]_(ro|mut)_n3"],
    "C13": ["proj1_n2", "view_access[13]_n3", "(union|diff|covdiff)_init_mut_n2", "inter_init_mut_n3", "remove_shape_n3", "obs_get_mut_n3", "obs_lpm_mut_n3", "whole_iter_mut_n4", "step_iter_mut_n3", "inter_step_mut_n2", "children_mut_n3", "diff_step_mut_n2", "covdiff_step_mut_n2",
            "inter_step_mut_n3", "union_step[0-4]_mut_n2", "split_interleave_n3"],
    "C14": ["inter_step_mut_n2", "inter_init_mut_n2", "view_nav_mut_n3", "view_find[0-3]_mut_n3", "view_find[13]_mut_n4", "view_nav_ro_n[34]", "step_iter_mut_n3", "obs_get_mut_n3", "whole_iter_mut_n4",
            "split_interleave_n[34]", "covdiff_step_mut_n2", "diff_step_mut_n2", "obs_lpm_mut_n3"],
    "C15": ["rmchildren_shape_n3", "entry_handle1_shape_n2", "view_access2_n3", "hist2_1", "insert_shape_n3", "entry_top1_shape_n2", "retain_struct_n2", "retain_lite_struct_n3", "retain_struct_n3", "rebuild2", "hist2_[023]"],
    "C16": ["entry_top0_slots_n2", "retain_lite_struct_n2", "insert_slots_n3", "entry_top1_slots_n2", "retain_struct_n2", "retain_lite_struct_n3", "hist2_[023]"],
    "C17": [],
    "C18": ["obs_set_n3", "entry_top[01]_ret_n2", "entry_handle0_ret_n2", "whole_iter_n3", "view_access2_n3", "inter_step_ro_n2", "hist2_0", "remove_shape_n3", "obs_get_n3", "view_at_ro_n3", "inter_helper0_n3", "obs_(lpm|spm|cover)_n4", "insert_ret_n3", "entry_top[2-5]_ret_n2", "entry_handle[12]_ret_n2", "whole_iter_n4", "view_at_(ro|mut)_n4",
            "children_n3", "covdiff_step_ro_n2", "diff_step_ro_n2", "(union|inter|diff)_helper0_n[24]", "collect2"],
    "C19": ["remove_shape_n3", "eq_map_n[23]", "eq_set_n2", "rebuild2", "collect2"],
    "C20": [],
}
# instances that run in no quick tier and have not been validated on the unchanged tree yet are
# optional: an inconclusive result (timeout, memory) is reported in the evidence, it does not fail the run.
# VALIDATED lists thorough-only instances that were run to completion on the unchanged tree.
VALIDATED = set()
try:
    VALIDATED = set(json.load(open(os.path.join(ROOT, "validated_thorough.json"))))
except Exception:
    pass
HOPELESS = r"(collect2|eq_map_n[23]|eq_set_n2|union_step[0-4]_(ro|mut)_n[23]|union_helper[12]_n[234]|union_whole_n2|whole_keys_values_clone_n2|split_interleave_n[34]|retain_shape7)"
for x in H:
    if not x["quick_for"] and x["name"] not in VALIDATED:
        x["optional"] = True
        # bound the time a thorough run spends on instances that are not known to finish
        x["timeout"] = 600 if _re.fullmatch(HOPELESS, x["name"]) else 1800
        if _re.fullmatch(HOPELESS, x["name"]):
            x["note"] = "measured not to finish inside the limits of this sandbox (DESIGN.md §12); kept so that a stronger machine can decide it; reported inconclusive, never a pass"
for x in H:
    x["thorough_for"] = list(x["quick_for"])
    for p in x["props"]:
        if p not in x["thorough_for"] and any(_re.fullmatch(pat, x["name"]) for pat in THOROUGH_EXTRA.get(p, [])):
            x["thorough_for"].append(p)
    # C20: every public entry point that any quick tier reaches
    if "C20" in x["props"] and x["quick_for"] and "C20" not in x["thorough_for"]:
        x["thorough_for"].append("C20")
for p, pats in THOROUGH_EXTRA.items():
    for pat in pats:
        if not any(_re.fullmatch(pat, x["name"]) and p in x["props"] for x in H):
            print("WARNING: thorough pattern %s of %s matches no harness that lists the property" % (pat, p))
for p, pats in QUICK.items():
    for pat in pats:
        if not any(_re.fullmatch(pat, x["name"]) and p in x["props"] for x in H):
            print("WARNING: quick pattern %s of %s matches no harness that lists the property" % (pat, p))

REG = {
    "assumptions": {
        "*": [
            "bounded: P=(u8,u8) (all lengths 0..=8, all host bits), T=u8, arena of at most N slots as stated per harness; larger tries, other prefix types inside the trie code and value types with drop glue are outside the claim",
            "pre-states are arbitrary arenas satisfying WF (+FREE/CNT, PART/CANON where stated), injected through the verif-hooks accessor; lifting one-step results to histories of any length is a pen-and-paper induction over the step obligations",
            "Vec growth is cut by a checked stub of std::alloc::Global::grow_impl_runtime (capacity reserved by the hooks; if growth were reachable the harness is reported inconclusive); maps are mem::forget-ed at the end of a harness",
            "Kani 0.68 / CBMC 6.11 / CaDiCaL and rustc's MIR are trusted; allocation failure is out of scope",
        ]
    },
    "exhaustive_props": {"C17": True},
    "harnesses": H,
}

if __name__ == "__main__":
    with open(os.path.join(ROOT, "registry.json"), "w") as f:
        json.dump(REG, f, indent=1)
    with open(os.path.join(ROOT, "harness", "src", "registry.rs"), "w") as f:
        f.write("// GENERATED by /verif/mkreg.py -- do not edit. (name, unwind, growth cut, body)\nharnesses! {\n")
        for x in H:
            if x.get("crate") == "algebra":
                continue
            f.write("    (%s, %d, %s, %s),\n" % (x["name"], x["unwind"], x["stub_kind"], x["body"]))
        f.write("}\n")
    print("wrote registry.json / registry.rs with %d harnesses" % len(H))


# ------------------------------------------------------------------ MANIFEST.json
CLAIM_TEXT = {
    "C01": ("one-step simulation of the abstract map: from every well-formed arena of at most N slots (symbolic contents and topology) each mutator (insert, every Entry path, remove, remove_keep_tree, remove_children, retain, clear, collect of two pairs) returns the abstract return value and leaves the abstract post-map (probe prefix), and each exact-match observer returns the abstract answer", "§4 C01"),
    "C02": ("get_lpm / get_lpm_prefix / get_lpm_mut / set get_lpm equal the longest covering entry of the abstract map for every well-formed arena of at most N slots (value-less nodes anywhere) and every query", "§4 C02"),
    "C03": ("whole traversals from the real constructors (iter, iter_mut, into_iter) at N=3 with a probe prefix, plus Init/Step obligations on injected stacks at N=4: each entry once, ascending, fused; the projection wrappers values_mut / into_keys / into_values item by item against iter() at N=2 (owned ones with an arbitrary entry counter); keys / values / &map / Keys::clone and the set iterators likewise in the thorough tier", "§4 C03"),
    "C04": ("len()/is_empty() delta of every mutator equals the abstract delta from every well-formed, count-consistent state of at most N slots; includes Entry handles, clone, collect and mutable views", "§4 C04"),
    "C05": ("union / union_mut: Init obligation on the real constructors for every pair of view locations (stack invariant, nothing lost; 2+2 and 3+3 slots), contract of the pair classifier next_indices (3+3, 4+4), and the first item of a 1+1 traversal; the one-sided descent helpers and the Step of Union::next exceed CBMC's memory and are NOT decided (DESIGN.md §12)", "§4 C05"),
    "C06": ("intersection / intersection_mut: Init on the real constructors for every pair of view locations (3+3 slots), helper contracts (no common entry pruned; 4+4), and the Step of Intersection::next from every stack satisfying the stack invariant (2+2 slots; IntersectionMut in the thorough tier)", "§4 C06"),
    "C07": ("difference / covering_difference and their _mut twins: Init on the real constructors for every pair of view locations (3+3 slots), helper contracts (4+4), Step of CoveringDifference::next for calls that finish within two loop bodies (quick, 2+2); unbounded Step of all four iterators in the thorough tier", "§4 C07, §9"),
    "C08": ("LPM annotations: the constructors of union / difference / difference_mut seed exactly the true longest matches for every pair of view locations (Init, S4), the first union item carries the true match; inheritance across next() steps is decided for difference (thorough) and not for union", "§4 C08"),
    "C09": ("get_spm / get_spm_prefix / cover / cover_keys / cover_values / set twins vs the covering entries of the abstract map (each once, increasing length, first = spm, last = lpm, fused)", "§4 C09"),
    "C10": ("children / children_mut / into_children start stacks and a whole traversal, remove_children step, retain step with an observing predicate (once per entry, exactly the rejected entries removed)", "§4 C10"),
    "C11": ("view_at / view_mut_at, left / right / split / has_left / has_right from every view location (node or virtual) against the region oracle; existence iff non-empty on canonical tries", "§4 C11"),
    "C12": ("find / find_exact / find_lpm / view_at from every view location and every query (inside, covering, disjoint), read-only and mutable (Err hands back the view)", "§4 C12"),
    "C13": ("mutable lookups, iterators, view accessors and *_mut set operations hand out the value slot of the node the read-only twin yields; a write changes exactly that entry (arena read-back)", "§4 C13"),
    "C14": ("address and region disjointness: results of find/left/right/split lie inside the consumed view, the two sides are disjoint, one traversal never hands out a slot twice (the symbolic interleaving of two IterMut over a split is a thorough, optional instance that does not finish here); the compile-time clauses (borrow checking, Send/Sync bounds) are not decidable by symbolic execution (DESIGN.md §12)", "§4 C14"),
    "C15": ("every mutator preserves WF (and CANON where the property demands it) from every WF arena of at most N slots; remove_keep_tree and value-only operations leave child pointers and prefixes unchanged; canonical tries with equal key sets have equal node sets (lemma)", "§4 C15"),
    "C16": ("every mutator preserves the slot partition (reachable xor free, free list duplicate-free) and grows the arena only when the free list is empty, from every partitioned arena of at most N slots", "§4 C16"),
    "C17": ("the Prefix trait methods of all 14 shipped types against the reference algebra for every representation, every length 0..=width and every bit index 0..=255 (finite domain decided completely, no loop in the code under test)", "§4 C17"),
    "C18": ("stored representation component of the abstract map: observers, iterators, views and set-operation items return stored bytes, inserting calls overwrite them with the argument's bytes, other calls leave them", "§4 C18"),
    "C19": ("== / != of two maps and of two sets against the sequence oracle at 1+1 slots (2+2 is a thorough, optional instance that does not finish here), clone() equality and independence (N=3), clone_from() onto a destination that already holds entries (N=2+2: exact copy, nothing of the old contents survives, source untouched), rebuild from the own entries in another order (thorough); the serde wire formats are not decidable here (DESIGN.md §12)", "§4 C19"),
    "C20": ("Kani's panic / unwrap / unreachable / index / overflow / unwinding checks over the harnesses of all other properties (every public entry point from every invariant state inside the bound), handle-call sequences, and callback-time observations modelling a panicking user callback", "§4 C20"),
}
NOT_YET = "harnesses for this property are not built yet in this revision"


def manifest():
    props = [json.loads(l)["id"] for l in open(os.path.join(ROOT, "properties.jsonl"))]
    checks, na = [], []
    for p in props:
        quick = [x for x in H if p in x["quick_for"]]
        if p in CLAIM_TEXT and quick:
            text, ref = CLAIM_TEXT[p]
            checks.append({
                "property_id": p,
                "quick_cmd": "./check %s --tier quick" % p,
                "thorough_cmd": "./check %s --tier thorough" % p,
                "evidence_file": "evidence/%s.json" % p,
                "replay_cmd_template": "./check %s --replay {path}" % p,
                "engine": "kani-cbmc",
                "level_claimed": {"category": "model_checking", "text": "bounded model checking of the compiled crate (Kani 0.68 -> CBMC 6.11 -> CaDiCaL): " + text, "design_ref": "DESIGN.md " + ref},
                "level_note": "bounds: P=(u8,u8) all lengths/host bits, T=u8, arenas of at most N slots (N per harness in the evidence); pre-states injected through the verif-hooks feature under the representation invariant; Vec growth/allocation cut by checked stubs; induction from steps to histories is on paper; trusted: Kani, CBMC, CaDiCaL, rustc MIR, the 150-line reference oracle in harness/src/{spec,oracle,arena}.rs",
                "technique": "SAT-based bounded model checking of the real code (Kani/CBMC) from symbolic invariant-constrained states; counterexamples replayed natively",
            })
        else:
            na.append({"property_id": p, "reason": NOT_YET})
    return {
        "version": 1,
        "setup_cmd": "./setup.sh",
        "hooks": {
            "guard": "cargo feature `verif-hooks` of prefix-trie",
            "enable": "the harness crate /verif/harness depends on /repo by path with features = [\"verif-hooks\"]; cargo kani rebuilds it from the working tree on every run",
            "baseline_off_cmd": "cd /repo && cargo test --workspace --no-fail-fast --offline",
            "source_commits": ["34f8a68", "57794d8", "0f24ec2"],
            "add_only": True,
        },
        "engines": [{"name": "kani-cbmc", "path": "/verif/check", "serves_properties": [c["property_id"] for c in checks],
                     "kind_free_text": "python driver -> cargo kani (one process per harness, parallel) -> CBMC/CaDiCaL; failing harnesses re-run with concrete playback and replayed natively by harness/src/bin/replay.rs"}],
        "checks": checks,
        "not_applicable": na,
        "notes": "see DESIGN.md; known_findings.json lists defects found (fixed ones carry the fix commit)",
    }


if __name__ == "__main__":
    with open(os.path.join(ROOT, "MANIFEST.json"), "w") as f:
        json.dump(manifest(), f, indent=1)
    print("wrote MANIFEST.json")
