//! Reference prefix algebra on machine integers. Never calls into the crate under test.
//! `P = (u8, u8)`: 8-bit representation (host bits kept), length 0..=8.

pub type P = (u8, u8);
pub const W: u8 = 8;

/// network part of representation `r` at length `l`
#[inline(always)]
pub fn mask_at(r: u8, l: u8) -> u8 {
    if l == 0 {
        0
    } else if l >= W {
        r
    } else {
        r & !(0xffu8 >> l)
    }
}
#[inline(always)]
pub fn mask(p: &P) -> u8 {
    mask_at(p.0, p.1)
}
/// same key: equal length and equal network part
#[inline(always)]
pub fn same(a: &P, b: &P) -> bool {
    a.1 == b.1 && mask(a) == mask(b)
}
/// `a` covers `b` (inclusive)
#[inline(always)]
pub fn covers(a: &P, b: &P) -> bool {
    a.1 <= b.1 && mask_at(b.0, a.1) == mask(a)
}
#[inline(always)]
pub fn covers_strict(a: &P, b: &P) -> bool {
    a.1 < b.1 && mask_at(b.0, a.1) == mask(a)
}
/// `i`-th leading bit of the network part, false for `i >= len`
#[inline(always)]
pub fn bit(p: &P, i: u8) -> bool {
    i < p.1 && i < W && (mask(p) >> (W - 1 - i)) & 1 == 1
}
/// lexicographic order: ascending by network address, then by length
#[inline(always)]
pub fn lex_lt(a: &P, b: &P) -> bool {
    mask(a) < mask(b) || (mask(a) == mask(b) && a.1 < b.1)
}
/// neither covers the other
#[inline(always)]
pub fn disjoint(a: &P, b: &P) -> bool {
    !covers(a, b) && !covers(b, a)
}
/// length of the longest common prefix
#[inline(always)]
pub fn lcp_len(a: &P, b: &P) -> u8 {
    let x = mask(a) ^ mask(b);
    let mut n = x.leading_zeros() as u8; // 0..=8
    if a.1 < n {
        n = a.1;
    }
    if b.1 < n {
        n = b.1;
    }
    n
}

pub fn any_p<S: crate::src::Src>(s: &mut S) -> P {
    let r = s.u8();
    let l = s.u8();
    s.assume(l <= W);
    (r, l)
}
