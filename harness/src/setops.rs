//! Set-operation iterators (C05-C08, C13, C14, C18): Init obligations on the real constructors and
//! Step obligations on injected stacks (DESIGN.md §3.8, §4 C05-C08).
//!
//! Two arenas A (left) and B (right), each with a view location. `region(view) = subtree(loc.idx)`;
//! *entries of a view* = valued slots of its region.
//!
//! Stack entries: kind 0 Both(l,r), 1 FirstL(l,r), 2 FirstR(l,r), 3 OnlyL(l), 4 OnlyR(r).

use crate::arena::*;
use crate::oracle::*;
use crate::spec::*;
use crate::src::Src;
use crate::views::{any_loc, Loc};
use prefix_trie::PrefixMap;

pub const UNION: u8 = 0;
pub const INTER: u8 = 1;
pub const DIFF: u8 = 2;
pub const COVDIFF: u8 = 3;

pub struct Two<const N: usize> {
    pub a: [Raw; N],
    pub ra: [bool; N],
    pub sa: [[bool; N]; N],
    pub la: Loc,
    pub b: [Raw; N],
    pub rb: [bool; N],
    pub sb: [[bool; N]; N],
    pub lb: Loc,
}

pub fn two<S: Src, const N: usize>(s: &mut S) -> Two<N> {
    let a = any_nodes::<S, N>(s);
    let ra = reach(&a);
    s.assume(wf(&a, &ra));
    let b = any_nodes::<S, N>(s);
    let rb = reach(&b);
    s.assume(wf(&b, &rb));
    let la = any_loc(s, &a, &ra);
    let lb = any_loc(s, &b, &rb);
    Two {
        sa: subtree(&a),
        sb: subtree(&b),
        a,
        ra,
        la,
        b,
        rb,
        lb,
    }
}

#[derive(Clone, Copy)]
pub struct Ent {
    pub k: u8,
    pub l: usize,
    pub r: usize,
    /// inherited LPM annotations as slot indices of A / B (union: both, difference: `lr` only)
    pub ll: Option<usize>,
    pub lr: Option<usize>,
}
pub const NOENT: Ent = Ent {
    k: 0,
    l: 0,
    r: 0,
    ll: None,
    lr: None,
};

impl<const N: usize> Two<N> {
    /// entry of the left / right view
    #[inline(always)]
    pub fn ent_l(&self, x: usize) -> bool {
        self.ra[x] && self.a[x].1.is_some() && self.sa[self.la.idx][x]
    }
    #[inline(always)]
    pub fn ent_r(&self, y: usize) -> bool {
        self.rb[y] && self.b[y].1.is_some() && self.sb[self.lb.idx][y]
    }
    #[inline(always)]
    pub fn has_l(e: &Ent) -> bool {
        e.k != 4
    }
    #[inline(always)]
    pub fn has_r(e: &Ent) -> bool {
        e.k != 3
    }
    pub fn anchor(&self, e: &Ent) -> P {
        if e.k == 2 || e.k == 4 {
            self.b[e.r].0
        } else {
            self.a[e.l].0
        }
    }
    #[inline(always)]
    pub fn rem_l(&self, e: &Ent, x: usize) -> bool {
        Self::has_l(e) && self.sa[e.l][x]
    }
    #[inline(always)]
    pub fn rem_r(&self, e: &Ent, y: usize) -> bool {
        Self::has_r(e) && self.sb[e.r][y]
    }
    /// longest entry of the left / right view covering `p` (inclusive)
    pub fn lpm_l(&self, p: &P) -> Option<usize> {
        lpm_in(&self.a, &self.ra, &self.sa[self.la.idx], p)
    }
    pub fn lpm_r(&self, p: &P) -> Option<usize> {
        lpm_in(&self.b, &self.rb, &self.sb[self.lb.idx], p)
    }
    /// right view stores the key of `p`
    pub fn stored_r(&self, p: &P) -> bool {
        let mut r = false;
        let mut y = 0;
        while y < N {
            if self.ent_r(y) && same(&self.b[y].0, p) {
                r = true;
            }
            y += 1;
        }
        r
    }
    pub fn stored_l(&self, p: &P) -> bool {
        let mut r = false;
        let mut x = 0;
        while x < N {
            if self.ent_l(x) && same(&self.a[x].0, p) {
                r = true;
            }
            x += 1;
        }
        r
    }
    /// some entry of the right view covers `p` (inclusive)
    pub fn covered_by_r(&self, p: &P) -> bool {
        self.lpm_r(p).is_some()
    }
    /// is left entry `x` part of the result of family FAM
    pub fn selected_l<const FAM: u8>(&self, x: usize) -> bool {
        self.ent_l(x)
            && match FAM {
                UNION => true,
                INTER => self.stored_r(&self.a[x].0),
                DIFF => !self.stored_r(&self.a[x].0),
                _ => !self.covered_by_r(&self.a[x].0),
            }
    }

    /// StackInv (S1-S5 of DESIGN.md §4) for a stack `st[0..len]` (index 0 = bottom)
    pub fn stack_inv<const FAM: u8, const ANN: bool, const K: usize>(&self, st: &[Ent; K], len: usize) -> bool {
        let mut ok = len <= K;
        let mut i = 0;
        while i < K {
            if i < len {
                let e = &st[i];
                // S1: kind, membership, relation of the two nodes
                let kmax = match FAM {
                    UNION => 4,
                    INTER => 2,
                    _ => 3,
                };
                ok = ok && e.k <= kmax;
                if Self::has_l(e) {
                    ok = ok && e.l < N && self.ra[e.l] && self.sa[self.la.idx][e.l];
                }
                if Self::has_r(e) {
                    ok = ok && e.r < N && self.rb[e.r] && self.sb[self.lb.idx][e.r];
                }
                if ok {
                    let pl = self.a[e.l].0;
                    let pr = self.b[e.r].0;
                    ok = ok
                        && match e.k {
                            0 => same(&pl, &pr),
                            1 => covers_strict(&pl, &pr),
                            2 => covers_strict(&pr, &pl),
                            _ => true,
                        };
                }
                if ok {
                    let an = self.anchor(e);
                    // S2: anchors pairwise disjoint, descending towards the bottom
                    let mut j = 0;
                    while j < i {
                        let bn = self.anchor(&st[j]);
                        ok = ok && disjoint(&an, &bn) && lex_lt(&an, &bn);
                        j += 1;
                    }
                    // S3: closure
                    let mut x = 0;
                    while x < N {
                        if covers(&an, &self.a[x].0) {
                            let need = match FAM {
                                UNION | DIFF => self.ent_l(x),
                                INTER => self.ent_l(x) && self.stored_r(&self.a[x].0),
                                _ => self.selected_l::<COVDIFF>(x),
                            };
                            if need {
                                ok = ok && self.rem_l(e, x);
                            }
                        }
                        if covers(&an, &self.b[x].0) {
                            let need = match FAM {
                                INTER => self.ent_r(x) && self.stored_l(&self.b[x].0),
                                _ => self.ent_r(x),
                            };
                            if need {
                                ok = ok && self.rem_r(e, x);
                            }
                        }
                        // S5 (covering difference): no right entry outside Rem covers the anchor
                        if FAM == COVDIFF && self.ent_r(x) && covers(&self.b[x].0, &an) {
                            ok = ok && self.rem_r(e, x);
                        }
                        x += 1;
                    }
                    // S4: annotations are the true longest matches of the anchor
                    if ANN && FAM == UNION {
                        ok = ok && e.ll == self.lpm_l(&an);
                    }
                    if ANN && (FAM == UNION || FAM == DIFF) {
                        ok = ok && e.lr == self.lpm_r(&an);
                    }
                }
            }
            i += 1;
        }
        ok
    }

    pub fn in_rem_l<const K: usize>(&self, st: &[Ent; K], len: usize, x: usize) -> bool {
        let mut r = false;
        let mut i = 0;
        while i < K {
            if i < len && self.rem_l(&st[i], x) {
                r = true;
            }
            i += 1;
        }
        r
    }
    pub fn in_rem_r<const K: usize>(&self, st: &[Ent; K], len: usize, y: usize) -> bool {
        let mut r = false;
        let mut i = 0;
        while i < K {
            if i < len && self.rem_r(&st[i], y) {
                r = true;
            }
            i += 1;
        }
        r
    }
}

pub fn any_ent<S: Src, const FAM: u8, const ANN: bool, const N: usize>(s: &mut S) -> Ent {
    let k = s.u8();
    let l = s.idx(N);
    let r = s.idx(N);
    let ll = if ANN && FAM == UNION { s.opt_idx(N) } else { None };
    let lr = if ANN && (FAM == UNION || FAM == DIFF) { s.opt_idx(N) } else { None };
    Ent { k, l, r, ll, lr }
}

fn mk_both<const N: usize>(t: &Two<N>) -> (PrefixMap<P, u8>, PrefixMap<P, u8>) {
    #[cfg(kani)]
    {
        crate::stubs::allow_alloc(0, N * 40);
    }
    let ma = PrefixMap::__verif_from_raw(to_vec(&t.a), &[], 0, count(&t.a, &t.ra), N, 0);
    let mb = PrefixMap::__verif_from_raw(to_vec(&t.b), &[], 0, count(&t.b, &t.rb), N, 0);
    (ma, mb)
}

fn to_vec<const N: usize>(nodes: &[Raw; N]) -> Vec<Raw> {
    let mut v: Vec<Raw> = Vec::with_capacity(N);
    let mut i = 0;
    while i < N {
        v.push(nodes[i]);
        i += 1;
    }
    v
}

/// slot of `map` whose prefix lives at address `p`
fn slot_of<const N: usize>(map: &PrefixMap<P, u8>, p: *const P) -> Option<usize> {
    let mut r = None;
    let mut i = 0;
    while i < N {
        if map.__verif_prefix_ptr(i) == p {
            r = Some(i);
        }
        i += 1;
    }
    r
}

fn lpm_slot<const N: usize>(map: &PrefixMap<P, u8>, x: Option<(*const P, *const u8)>) -> Result<Option<usize>, ()> {
    match x {
        None => Ok(None),
        Some((pp, vp)) => match slot_of::<N>(map, pp) {
            Some(i) if map.__verif_value_ptr(i) == vp && !vp.is_null() => Ok(Some(i)),
            _ => Err(()),
        },
    }
}

/// what one `next()` produced, normalised over the eight iterator types
#[derive(Clone, Copy)]
pub struct Item {
    pub prefix: *const P,
    pub left: Option<*const u8>,
    pub right: Option<*const u8>,
    /// union Left.right / Right.left and difference item.right, as (prefix address, value address)
    pub ann_l: Option<(*const P, *const u8)>,
    pub ann_r: Option<(*const P, *const u8)>,
    pub tag: u8, // union: 0 Both, 1 Left, 2 Right; others 0
}

/// Read-only and mutable twins of each family. MUT twins: UnionMut, IntersectionMut, DifferenceMut,
/// CoveringDifferenceMut.
/// `TOPK`: 255 = any stack; otherwise the stack holds exactly K entries, the top one of kind
/// `TOPK`, and the top entry is assumed to yield an item at once (one loop body of `next()`).
pub fn run<S: Src, const FAM: u8, const MUT: bool, const INIT: bool, const ANN: bool, const TOPK: u8, const N: usize, const K: usize, const K1: usize>(s: &mut S) {
    let t = two::<S, N>(s);
    let mut st = [NOENT; K];
    let mut len = 0;
    if !INIT {
        let mut i = 0;
        while i < K {
            st[i] = any_ent::<S, FAM, ANN, N>(s);
            i += 1;
        }
        if TOPK == 255 {
            len = s.idx(K + 1);
        } else {
            len = K;
            st[K - 1].k = TOPK;
            let e = &st[K - 1];
            let lv = t.a[e.l].1.is_some();
            let rv = t.b[e.r].1.is_some();
            let emits = match (FAM, TOPK) {
                (UNION, 0) => lv || rv,
                (UNION, 1) | (UNION, 3) => lv,
                (UNION, _) => rv,
                (INTER, 0) => lv && rv,
                (INTER, _) => false,
                (DIFF, 0) => lv && !rv,
                (COVDIFF, 0) => lv && !rv,
                (_, 1) | (_, 3) => lv,
                _ => false,
            };
            s.assume(emits);
        }
        s.assume(t.stack_inv::<FAM, ANN, K>(&st, len));
    }
    let (mut ma, mut mb) = mk_both(&t);
    #[cfg(kani)]
    {
        use crate::stubs::{allow_alloc, allow_grow};
        // vectors built by next_indices* / from_iter: 1..4 index entries of 24 bytes
        allow_alloc(1, 24);
        allow_alloc(2, 48);
        allow_alloc(3, 72);
        allow_alloc(4, 96);
        // stacks (reserved capacity K1 + 1, must not grow) and harness-side staging vectors
        let esz = if FAM == UNION && !MUT { 56 } else if FAM == DIFF { 40 } else { 24 };
        allow_alloc(5, (K1 + 1) * esz);
        // index vectors of one or two entries grow to capacity four
        allow_grow(0, 24, 96);
        allow_grow(1, 48, 96);
        // `.collect()` of the initial stack in the constructors: 1 or 2 entries
        allow_alloc(6, esz);
        allow_alloc(7, 2 * esz);
        allow_alloc(8, (K1 + 1) * 24);
    }
    // probes
    let x = s.idx(N);
    let y = s.idx(N);
    let w = s.u8();

    // ---- build the iterator, take one step (Step) or none (Init), read the stack back
    let mut post = [NOENT; K1];
    let mut plen = 0usize;
    let mut item: Option<Item> = None;
    let mut bad_ann = false;
    use prefix_trie::trieview::{__verif_difference as hd, __verif_intersection as hi, __verif_union as hu};
    macro_rules! plain_stack {
        ($it:expr) => {{
            plen = $it.__verif_stack_len();
            let mut i = 0;
            while i < K1 {
                if i < plen {
                    let e = $it.__verif_stack_entry(i);
                    post[i] = Ent { k: e.0, l: e.1, r: e.2, ll: None, lr: None };
                }
                i += 1;
            }
        }};
    }
    macro_rules! enc_plain {
        () => {{
            let mut v: Vec<(u8, usize, usize)> = Vec::with_capacity(K1 + 1);
            let mut i = 0;
            while i < K {
                if i < len {
                    v.push((st[i].k, st[i].l, st[i].r));
                }
                i += 1;
            }
            v
        }};
    }
    match (FAM, MUT) {
        (UNION, false) => {
            let mut it = if INIT {
                // Init only reads the stack back: no next() is called, so no re-homing is needed
                ma.__verif_view(t.la.virt, t.la.idx).union(mb.__verif_view(t.lb.virt, t.lb.idx))
            } else {
                let mut v: Vec<((u8, usize, usize), Option<usize>, Option<usize>)> = Vec::with_capacity(K1 + 1);
                let mut i = 0;
                while i < K {
                    if i < len {
                        v.push(((st[i].k, st[i].l, st[i].r), st[i].ll, st[i].lr));
                    }
                    i += 1;
                }
                prefix_trie::trieview::Union::__verif_from(&ma, &mb, &v, K1 + 1)
            };
            if !INIT {
                use prefix_trie::trieview::UnionItem;
                item = it.next().map(|u| match u {
                    UnionItem::Both { prefix, left, right } => Item { prefix, left: Some(left as *const u8), right: Some(right as *const u8), ann_l: None, ann_r: None, tag: 0 },
                    UnionItem::Left { prefix, left, right } => Item { prefix, left: Some(left as *const u8), right: None, ann_l: None, ann_r: right.map(|(p, v)| (p as *const P, v as *const u8)), tag: 1 },
                    UnionItem::Right { prefix, left, right } => Item { prefix, left: None, right: Some(right as *const u8), ann_l: left.map(|(p, v)| (p as *const P, v as *const u8)), ann_r: None, tag: 2 },
                });
            }
            plen = it.__verif_stack_len();
            let mut i = 0;
            while i < K1 {
                if i < plen {
                    let (e, al, ar) = it.__verif_stack_entry(i);
                    let ll = lpm_slot::<N>(&ma, al);
                    let lr = lpm_slot::<N>(&mb, ar);
                    bad_ann = bad_ann || ll.is_err() || lr.is_err();
                    post[i] = Ent { k: e.0, l: e.1, r: e.2, ll: ll.unwrap_or(None), lr: lr.unwrap_or(None) };
                }
                i += 1;
            }
            std::mem::forget(it);
        }
        (UNION, true) => {
            let mut va = ma.__verif_view_mut(t.la.virt, t.la.idx);
            let vb = mb.__verif_view_mut(t.lb.virt, t.lb.idx);
            if INIT {
                let it = va.union_mut(vb);
                plain_stack!(it);
                std::mem::forget(it);
            } else {
                drop(va);
                drop(vb);
                let v = enc_plain!();
                let mut it = prefix_trie::trieview::UnionMut::__verif_from(&mut ma, &mut mb, &v, K1 + 1);
                item = it.next().map(|(p, l, r)| Item {
                    prefix: p,
                    tag: if l.is_some() && r.is_some() { 0 } else if l.is_some() { 1 } else { 2 },
                    left: l.map(|v| { *v = w; v as *mut u8 as *const u8 }),
                    right: r.map(|v| { *v = w; v as *mut u8 as *const u8 }),
                    ann_l: None,
                    ann_r: None,
                });
                plain_stack!(it);
                std::mem::forget(it);
            }
        }
        (INTER, false) => {
            let mut it = if INIT {
                ma.__verif_view(t.la.virt, t.la.idx).intersection(mb.__verif_view(t.lb.virt, t.lb.idx))
            } else {
                let v = enc_plain!();
                prefix_trie::trieview::Intersection::__verif_from(&ma, &mb, &v, K1 + 1)
            };
            if !INIT {
                item = it.next().map(|(p, l, r)| Item { prefix: p, left: Some(l as *const u8), right: Some(r as *const u8), ann_l: None, ann_r: None, tag: 0 });
            }
            plain_stack!(it);
            std::mem::forget(it);
        }
        (INTER, true) => {
            if INIT {
                let mut va = ma.__verif_view_mut(t.la.virt, t.la.idx);
                let vb = mb.__verif_view_mut(t.lb.virt, t.lb.idx);
                let it = va.intersection_mut(vb);
                plain_stack!(it);
                std::mem::forget(it);
            } else {
                let v = enc_plain!();
                let mut it = prefix_trie::trieview::IntersectionMut::__verif_from(&mut ma, &mut mb, &v, K1 + 1);
                item = it.next().map(|(p, l, r)| {
                    *l = w;
                    *r = w;
                    Item { prefix: p, left: Some(l as *mut u8 as *const u8), right: Some(r as *mut u8 as *const u8), ann_l: None, ann_r: None, tag: 0 }
                });
                plain_stack!(it);
                std::mem::forget(it);
            }
        }
        (DIFF, _) => {
            let mut v: Vec<((u8, usize, usize), Option<usize>)> = Vec::with_capacity(K1 + 1);
            let mut i = 0;
            while i < K {
                if i < len {
                    v.push(((st[i].k, st[i].l, st[i].r), st[i].lr));
                }
                i += 1;
            }
            macro_rules! diff_stack {
                ($it:expr) => {{
                    plen = $it.__verif_stack_len();
                    let mut i = 0;
                    while i < K1 {
                        if i < plen {
                            let (e, ar) = $it.__verif_stack_entry(i);
                            let lr = lpm_slot::<N>(&mb, ar);
                            bad_ann = bad_ann || lr.is_err();
                            post[i] = Ent { k: e.0, l: e.1, r: e.2, ll: None, lr: lr.unwrap_or(None) };
                        }
                        i += 1;
                    }
                }};
            }
            if !MUT {
                let mut it = if INIT {
                    ma.__verif_view(t.la.virt, t.la.idx).difference(mb.__verif_view(t.lb.virt, t.lb.idx))
                } else {
                    prefix_trie::trieview::Difference::__verif_from(&ma, &mb, &v, K1 + 1)
                };
                if !INIT {
                    item = it.next().map(|d| Item { prefix: d.prefix, left: Some(d.value as *const u8), right: None, ann_l: None, ann_r: d.right.map(|(p, v)| (p as *const P, v as *const u8)), tag: 0 });
                }
                diff_stack!(it);
                std::mem::forget(it);
            } else if INIT {
                let mut va = ma.__verif_view_mut(t.la.virt, t.la.idx);
                let it = va.difference_mut(mb.__verif_view(t.lb.virt, t.lb.idx));
                diff_stack!(it);
                std::mem::forget(it);
            } else {
                let mut it = prefix_trie::trieview::DifferenceMut::__verif_from(&mut ma, &mb, &v, K1 + 1);
                item = it.next().map(|d| {
                    *d.value = w;
                    Item { prefix: d.prefix, left: Some(d.value as *mut u8 as *const u8), right: None, ann_l: None, ann_r: d.right.map(|(p, v)| (p as *const P, v as *const u8)), tag: 0 }
                });
                diff_stack!(it);
                std::mem::forget(it);
            }
        }
        (_, false) => {
            let mut it = if INIT {
                ma.__verif_view(t.la.virt, t.la.idx).covering_difference(mb.__verif_view(t.lb.virt, t.lb.idx))
            } else {
                let v = enc_plain!();
                prefix_trie::trieview::CoveringDifference::__verif_from(&ma, &mb, &v, K1 + 1)
            };
            if !INIT {
                item = it.next().map(|(p, l)| Item { prefix: p, left: Some(l as *const u8), right: None, ann_l: None, ann_r: None, tag: 0 });
            }
            plain_stack!(it);
            std::mem::forget(it);
        }
        (_, true) => {
            if INIT {
                let mut va = ma.__verif_view_mut(t.la.virt, t.la.idx);
                let it = va.covering_difference_mut(mb.__verif_view(t.lb.virt, t.lb.idx));
                plain_stack!(it);
                std::mem::forget(it);
            } else {
                let v = enc_plain!();
                let mut it = prefix_trie::trieview::CoveringDifferenceMut::__verif_from(&mut ma, &mb, &v, K1 + 1);
                item = it.next().map(|(p, l)| {
                    *l = w;
                    Item { prefix: p, left: Some(l as *mut u8 as *const u8), right: None, ann_l: None, ann_r: None, tag: 0 }
                });
                plain_stack!(it);
                std::mem::forget(it);
            }
        }
    }

    // ---- obligations
    check!(s, plen <= K1, "C05,C06,C07:stack stays within the modelled size");
    check!(s, !bad_ann, "C08:annotations on the stack point at valued nodes of the other operand");
    // remaining sets before (Init: the whole regions) and after
    let pre_l = if INIT { t.ent_l(x) } else { t.ent_l(x) && t.in_rem_l(&st, len, x) };
    let pre_r = if INIT { t.ent_r(y) } else { t.ent_r(y) && t.in_rem_r(&st, len, y) };
    let post_l = t.ent_l(x) && t.in_rem_l(&post, plen, x);
    let post_r = t.ent_r(y) && t.in_rem_r(&post, plen, y);
    let sel_x = t.selected_l::<FAM>(x);

    if INIT {
        check!(s, t.stack_inv::<FAM, ANN, K1>(&post, plen), "C05,C06,C07,C08,C13,C18:constructor establishes the stack invariant (kinds, order, closure, LPM seeds)");
        match FAM {
            UNION => {
                check!(s, post_l == t.ent_l(x) && post_r == t.ent_r(y), "C05,C13:initially every entry of both views remains to be visited");
            }
            INTER => {
                if sel_x {
                    check!(s, post_l, "C06,C13:initially every common entry remains to be visited (left)");
                }
                if t.ent_r(y) && t.stored_l(&t.b[y].0) {
                    check!(s, post_r, "C06,C13:initially every common entry remains to be visited (right)");
                }
            }
            _ => {
                if sel_x {
                    check!(s, post_l, "C07,C13:initially every selected left entry remains to be visited");
                }
            }
        }
    } else {
        match item {
            None => {
                check!(s, plen == 0, "C05,C06,C07:an exhausted traversal has an empty stack (stays exhausted)");
                match FAM {
                    UNION => check!(s, !pre_l && !pre_r, "C05:None only when no entry of either view remains"),
                    INTER => check!(s, !(pre_l && sel_x), "C06:None only when no common entry remains"),
                    _ => check!(s, !(pre_l && sel_x), "C07:None only when no selected left entry remains"),
                }
            }
            Some(it) => {
                // identify the node(s) behind the item
                let pa = slot_of::<N>(&ma, it.prefix);
                let pb = slot_of::<N>(&mb, it.prefix);
                check!(s, pa.is_some() || pb.is_some(), "C18:item prefix is the stored prefix of a node of one operand");
                let ip = match (pa, pb) {
                    (Some(i), _) => t.a[i].0,
                    (_, Some(j)) => t.b[j].0,
                    _ => (0, 0),
                };
                // slots storing that key in the remaining sets
                let mut il = None;
                let mut ir = None;
                let mut i = 0;
                while i < N {
                    if t.ent_l(i) && t.in_rem_l(&st, len, i) && same(&t.a[i].0, &ip) {
                        il = Some(i);
                    }
                    if t.ent_r(i) && t.in_rem_r(&st, len, i) && same(&t.b[i].0, &ip) {
                        ir = Some(i);
                    }
                    i += 1;
                }
                // payloads are the value slots of exactly those nodes
                let lok = match (it.left, il) {
                    (Some(v), Some(i)) => v == ma.__verif_value_ptr(i),
                    (None, _) => true,
                    _ => false,
                };
                let rok = match (it.right, ir) {
                    (Some(v), Some(j)) => v == mb.__verif_value_ptr(j),
                    (None, _) => true,
                    _ => false,
                };
                // the representation reported is a stored one of an operand that stores the key
                let repr_ok = (pa.is_some() && pa == il) || (pb.is_some() && pb == ir);
                check!(s, repr_ok, "C18:item prefix is the representation stored with the entry (of one of the operands storing it)");
                match FAM {
                    UNION => {
                        check!(s, lok && rok, "C05,C13:union item carries the values stored under its prefix");
                        check!(s, it.left.is_some() == il.is_some() && it.right.is_some() == ir.is_some() && (il.is_some() || ir.is_some()), "C05:union item is tagged Both/Left/Right exactly by presence in the two views");
                        if pre_l {
                            check!(s, !lex_lt(&t.a[x].0, &ip), "C05:union yields the least remaining prefix (left)");
                        }
                        if pre_r {
                            check!(s, !lex_lt(&t.b[y].0, &ip), "C05:union yields the least remaining prefix (right)");
                        }
                        check!(s, post_l == (pre_l && !same(&t.a[x].0, &ip)), "C05,C14:remaining left entries = previous minus the yielded prefix");
                        check!(s, post_r == (pre_r && !same(&t.b[y].0, &ip)), "C05,C14:remaining right entries = previous minus the yielded prefix");
                        if !MUT {
                            if it.tag == 1 {
                                check!(s, lpm_slot::<N>(&mb, it.ann_r) == Ok(t.lpm_r(&ip)), "C08:UnionItem::Left.right is the longest match in the right view");
                            }
                            if it.tag == 2 {
                                check!(s, lpm_slot::<N>(&ma, it.ann_l) == Ok(t.lpm_l(&ip)), "C08:UnionItem::Right.left is the longest match in the left view");
                            }
                        }
                    }
                    INTER => {
                        check!(s, il.is_some() && ir.is_some() && lok && rok, "C06,C13:intersection item is stored in both views and carries both values");
                        if pre_l && sel_x && t.in_rem_r(&st, len, y) && t.ent_r(y) && same(&t.a[x].0, &t.b[y].0) {
                            check!(s, !lex_lt(&t.a[x].0, &ip), "C06:intersection yields the least remaining common prefix");
                            check!(s, (post_l && post_r) == !same(&t.a[x].0, &ip), "C06,C14:remaining common entries = previous minus the yielded one");
                        }
                    }
                    _ => {
                        check!(s, il.is_some() && lok && pa == il, "C07,C13:difference item is a remaining left entry with its value");
                        if let Some(i) = il {
                            check!(s, t.selected_l::<FAM>(i), "C07:difference yields only selected left entries");
                        }
                        if pre_l && sel_x {
                            check!(s, !lex_lt(&t.a[x].0, &ip), "C07:difference yields the least remaining selected entry");
                            check!(s, post_l == !same(&t.a[x].0, &ip), "C07,C14:remaining selected entries = previous minus the yielded one");
                        }
                        if FAM == DIFF {
                            check!(s, lpm_slot::<N>(&mb, it.ann_r) == Ok(t.lpm_r(&ip)), "C08:difference item.right is the longest match in the right view");
                        }
                    }
                }
                if MUT {
                    // the write landed exactly on the yielded entries
                    let (pa_nodes, _) = readback::<N>(&ma);
                    let (pb_nodes, _) = readback::<N>(&mb);
                    let mut ea = t.a[x];
                    if it.left.is_some() && Some(x) == il {
                        ea.1 = Some(w);
                    }
                    let mut eb = t.b[y];
                    if it.right.is_some() && Some(y) == ir {
                        eb.1 = Some(w);
                    }
                    check!(s, pa_nodes[x] == ea && pb_nodes[y] == eb, "C13:writes through a *_mut set operation land exactly on the yielded entries");
                }
                check!(s, t.stack_inv::<FAM, ANN, K1>(&post, plen), "C05,C06,C07,C08:stack invariant preserved by next()");
            }
        }
    }
    cover!(s, t.la.virt.is_some() || t.lb.virt.is_some(), "a virtual view root");
    cover!(s, t.la.idx != 0 || t.lb.idx != 0, "a view not rooted at the map root");
    cover!(s, !same(&t.la.prefix(&t.a), &t.lb.prefix(&t.b)), "views with different roots");
    cover!(s, INIT || (item.is_some() && len == K), "item produced from a full stack");
    cover!(s, INIT || (item.is_none() && len > 0), "stack drained without an item");
    cover!(s, INIT || N < 3 || (item.is_some() && plen > len), "stack grew");
    std::mem::forget(ma);
    std::mem::forget(mb);
}

/// Layer H (DESIGN.md §4): contracts of the loop-free helper functions that classify a pair of
/// nodes and descend on one side. WHICH: 0 next_indices(Some l, Some r), 1 next_indices_first_l /
/// _a (pre: p_l strictly covers p_r), 2 next_indices_first_r / _b (pre: p_r strictly covers p_l).
/// The returned entries, in push order, must satisfy S1/S2, cover exactly the scope (the two
/// sub-trees, minus the processed shallower node) on the sides the family keeps, and be closed.
pub fn helper<S: Src, const FAM: u8, const WHICH: u8, const N: usize>(s: &mut S) {
    let mut t = two::<S, N>(s);
    // the helpers do not know about views: scope is relative to the two nodes
    t.la = Loc { virt: None, idx: 0 };
    t.lb = Loc { virt: None, idx: 0 };
    let l = s.idx(N);
    let r = s.idx(N);
    s.assume(t.ra[l] && t.rb[r]);
    let pl = t.a[l].0;
    let pr = t.b[r].0;
    match WHICH {
        1 => s.assume(covers_strict(&pl, &pr)),
        2 => s.assume(covers_strict(&pr, &pl)),
        _ => {}
    }
    let (ma, mb) = mk_both(&t);
    #[cfg(kani)]
    {
        use crate::stubs::{allow_alloc, allow_grow};
        allow_alloc(1, 24);
        allow_alloc(2, 48);
        allow_alloc(3, 72);
        allow_alloc(4, 96);
        allow_grow(0, 24, 96);
        allow_grow(1, 48, 96);
    }
    use prefix_trie::trieview::{__verif_difference as hd, __verif_intersection as hi, __verif_union as hu};
    let mut out = [NOENT; 3];
    let mut n = 0usize;
    {
        let v: Vec<(u8, usize, usize)> = match (FAM, WHICH) {
            (UNION, 0) => hu::next_indices(&ma, &mb, Some(l), Some(r)),
            (UNION, 1) => hu::next_indices_first_l(&ma, &mb, l, r),
            (UNION, _) => hu::next_indices_first_r(&ma, &mb, l, r),
            (INTER, 0) => hi::next_indices(&ma, &mb, Some(l), Some(r)).into_iter().collect(),
            (INTER, 1) => hi::next_indices_first_a(&ma, &mb, l, r).into_iter().collect(),
            (INTER, _) => hi::next_indices_first_b(&ma, &mb, l, r).into_iter().collect(),
            (_, 0) => hd::next_indices(&ma, &mb, Some(l), Some(r)),
            (_, 1) => hd::next_indices_first_a(&ma, &mb, l, r),
            (_, _) => hd::next_indices_first_b(&ma, &mb, l, r),
        };
        n = v.len();
        let mut i = 0;
        while i < 3 {
            if i < v.len() {
                out[i] = Ent { k: v[i].0, l: v[i].1, r: v[i].2, ll: None, lr: None };
            }
            i += 1;
        }
        std::mem::forget(v);
    }
    check!(s, n <= 3, "C05,C06,C07:a helper returns at most three entries");
    // scope on each side
    let x = s.idx(N);
    let y = s.idx(N);
    let in_l = t.sa[l][x] && !(WHICH == 1 && x == l);
    let in_r = t.sb[r][y] && !(WHICH == 2 && y == r);
    let ex = t.ra[x] && t.a[x].1.is_some() && in_l; // entry in the left scope
    let ey = t.rb[y] && t.b[y].1.is_some() && in_r;
    // S1 + S2 + closure, entry by entry
    let mut ok_kind = true;
    let mut ok_order = true;
    let mut ok_scope = true;
    let mut ok_closed = true;
    let mut cov_x = false;
    let mut cov_y = false;
    let mut i = 0;
    while i < 3 {
        if i < n {
            let e = out[i];
            let kmax = match FAM {
                UNION => 4,
                INTER => 2,
                _ => 3,
            };
            ok_kind = ok_kind && e.k <= kmax;
            if Two::<N>::has_l(&e) {
                ok_scope = ok_scope && e.l < N && t.sa[l][e.l] && !(WHICH == 1 && e.l == l);
            }
            if Two::<N>::has_r(&e) {
                ok_scope = ok_scope && e.r < N && t.sb[r][e.r] && !(WHICH == 2 && e.r == r);
            }
            if ok_scope {
                let el = t.a[e.l].0;
                let er = t.b[e.r].0;
                ok_kind = ok_kind
                    && match e.k {
                        0 => same(&el, &er),
                        1 => covers_strict(&el, &er),
                        2 => covers_strict(&er, &el),
                        _ => true,
                    };
                let an = t.anchor(&e);
                let mut j = 0;
                while j < i {
                    let bn = t.anchor(&out[j]);
                    ok_order = ok_order && disjoint(&an, &bn) && lex_lt(&an, &bn);
                    j += 1;
                }
                if in_l && covers(&an, &t.a[x].0) && ex {
                    let need = match FAM {
                        INTER => t.partner_in(&t.a[x].0, r, WHICH == 2),
                        _ => true,
                    };
                    if need {
                        ok_closed = ok_closed && t.rem_l(&e, x);
                    }
                }
                if in_r && covers(&an, &t.b[y].0) && ey {
                    ok_closed = ok_closed && (t.rem_r(&e, y) || (FAM == INTER && !t.partner_in_l(&t.b[y].0, l, WHICH == 1)));
                }
                cov_x = cov_x || t.rem_l(&e, x);
                cov_y = cov_y || t.rem_r(&e, y);
            }
        }
        i += 1;
    }
    check!(s, ok_scope, "C05,C06,C07:helper results stay inside the two sub-trees");
    check!(s, ok_kind, "C05,C06,C07,C18:helper results are classified by length, containment and network order (host bits ignored)");
    check!(s, ok_order, "C05,C06,C07:helper results are pushed in descending lexicographic order with disjoint anchors");
    check!(s, ok_closed, "C05,C06,C07:every entry under the anchor of a result stays with that result");
    match FAM {
        UNION => {
            check!(s, !ex || cov_x, "C05:no left entry of the scope is dropped");
            check!(s, !ey || cov_y, "C05:no right entry of the scope is dropped");
        }
        INTER => {
            if ex && ey && same(&t.a[x].0, &t.b[y].0) {
                check!(s, cov_x && cov_y, "C06,C18:no common entry of the scope is pruned");
            }
        }
        _ => {
            check!(s, !ex || cov_x, "C07:no left entry of the scope is dropped");
            if ex && ey && covers(&t.b[y].0, &t.a[x].0) {
                check!(s, cov_y, "C07:a right entry covering a kept left entry stays reachable");
            }
        }
    }
    cover!(s, !(FAM == UNION && WHICH != 0) || n == 3, "three entries returned");
    cover!(s, n >= 1 && out[0].k == 0, "a Both entry");
    cover!(s, WHICH != 0 || disjoint(&pl, &pr), "disjoint pair");
    std::mem::forget(ma);
    std::mem::forget(mb);
}

impl<const N: usize> Two<N> {
    /// does the right scope (sub-tree of r, optionally without r) hold an entry with key `p`
    pub fn partner_in(&self, p: &P, r: usize, skip_root: bool) -> bool {
        let mut f = false;
        let mut y = 0;
        while y < N {
            if self.rb[y] && self.b[y].1.is_some() && self.sb[r][y] && !(skip_root && y == r) && same(&self.b[y].0, p) {
                f = true;
            }
            y += 1;
        }
        f
    }
    pub fn partner_in_l(&self, p: &P, l: usize, skip_root: bool) -> bool {
        let mut f = false;
        let mut x = 0;
        while x < N {
            if self.ra[x] && self.a[x].1.is_some() && self.sa[l][x] && !(skip_root && x == l) && same(&self.a[x].0, p) {
                f = true;
            }
            x += 1;
        }
        f
    }
}

/// C05/C08/C18 cross-check without any invariant: full `union` traversal from the real constructor
/// over two tiny maps (whole-map views). Every item: order, tag, values, LPM annotation, reported
/// representation; every entry of either map appears exactly once (probe).
pub fn union_whole<S: Src, const N: usize>(s: &mut S) {
    let mut t = two::<S, N>(s);
    t.la = Loc { virt: None, idx: 0 };
    t.lb = Loc { virt: None, idx: 0 };
    if N == 1 {
        // one loop body of next(): the root pair yields an item at once
        s.assume(t.a[0].1.is_some() || t.b[0].1.is_some());
        // WF already forces a single slot to be childless; say so explicitly so that symex folds it
        t.a[0].2 = None;
        t.a[0].3 = None;
        t.b[0].2 = None;
        t.b[0].3 = None;
        t.a[0].0 .1 = 0;
        t.b[0].0 .1 = 0;
    }
    let (ma, mb) = mk_both(&t);
    #[cfg(kani)]
    {
        use crate::stubs::{allow_alloc, allow_grow};
        allow_alloc(1, 24);
        allow_alloc(2, 48);
        allow_alloc(3, 56);
        allow_alloc(4, 112);
        allow_alloc(5, 8 * 56);
        allow_grow(0, 24, 96);
        allow_grow(1, 48, 96);
    }
    let q = any_p(s);
    use prefix_trie::trieview::UnionItem;
    use prefix_trie::AsView;
    let mut it = ma.view().union(&mb);
    if N > 1 {
        it.__verif_rehome(8);
    }
    let mut last: Option<P> = None;
    let mut seen_q = 0usize;
    let mut ended = false;
    let mut k = 0;
    // at most one item per distinct prefix: N = 1 means at most one item
    while k < (if N == 1 { 1 } else { 2 * N }) {
        let x = it.next();
        if x.is_none() {
            ended = true;
        }
        if let Some(item) = x {
            check!(s, !ended, "C05:no item after union returned None");
            let pp: *const P = item.prefix();
            let p = *item.prefix();
            if let Some(lp) = last {
                check!(s, lex_lt(&lp, &p), "C05:union items ascend by (network address, length)");
            }
            last = Some(p);
            let il = lookup(&t.a, &t.ra, &p);
            let ir = lookup(&t.b, &t.rb, &p);
            let (gl, gr, tag) = match item {
                UnionItem::Both { left, right, .. } => (Some(*left), Some(*right), 0),
                UnionItem::Left { left, .. } => (Some(*left), None, 1),
                UnionItem::Right { right, .. } => (None, Some(*right), 2),
            };
            check!(s, gl == il.and_then(|i| t.a[i].1) && gr == ir.and_then(|j| t.b[j].1) && (il.is_some() || ir.is_some()), "C05:union item is tagged by presence and carries the stored values");
            let repr_ok = il.map(|i| ma.__verif_prefix_ptr(i) == pp).unwrap_or(false) || ir.map(|j| mb.__verif_prefix_ptr(j) == pp).unwrap_or(false);
            check!(s, repr_ok, "C18:union item prefix is the representation stored with the entry (of one of the operands storing it)");
            match item {
                UnionItem::Left { right, .. } => {
                    check!(s, right.map(|(p, v)| (*p, *v)) == t.lpm_r(&p).map(|j| (t.b[j].0, t.b[j].1.unwrap())), "C08:UnionItem::Left.right is the longest match in the right view");
                }
                UnionItem::Right { left, .. } => {
                    check!(s, left.map(|(p, v)| (*p, *v)) == t.lpm_l(&p).map(|i| (t.a[i].0, t.a[i].1.unwrap())), "C08:UnionItem::Right.left is the longest match in the left view");
                }
                _ => {}
            }
            if same(&p, &q) {
                seen_q += 1;
            }
        }
        k += 1;
    }
    check!(s, it.next().is_none(), "C05:union is exhausted after all prefixes of both operands");
    let stored = lookup(&t.a, &t.ra, &q).is_some() || lookup(&t.b, &t.rb, &q).is_some();
    check!(s, seen_q == if stored { 1 } else { 0 }, "C05:every prefix of either operand exactly once, nothing else");
    cover!(s, count(&t.a, &t.ra) >= 1 && count(&t.b, &t.rb) >= 1, "both operands non-empty");
    cover!(s, lookup(&t.a, &t.ra, &q).is_some() && lookup(&t.b, &t.rb, &q).is_some() && t.a[lookup(&t.a, &t.ra, &q).unwrap()].0 .0 != t.b[lookup(&t.b, &t.rb, &q).unwrap()].0 .0, "common prefix with different host bits");
    cover!(s, lookup(&t.a, &t.ra, &q).is_none() && lookup(&t.b, &t.rb, &q).is_some() && node_at(&t.a, &t.ra, &q).is_some(), "right-only entry on a value-less left node");
    std::mem::forget(it);
    std::mem::forget(ma);
    std::mem::forget(mb);
}
