//! Kani harnesses for prefix-trie (see /verif/DESIGN.md). Harness bodies are generic over the value
//! source so that the same body is decided symbolically by Kani and replayed natively on the bytes
//! of a counterexample.
#![cfg_attr(kani, feature(allocator_api))]
#![allow(unused, clippy::all)]

#[macro_use]
pub mod src;
pub mod algebra;
pub mod arena;
pub mod c20;
pub mod oracle;
pub mod spec;
pub mod stubs;

pub mod iters;
pub mod misc;
pub mod obs;
pub mod setops;
pub mod step;
pub mod views;

/// Declares the harness instances: a `#[kani::proof]` wrapper under Kani and an entry of the
/// native dispatch table otherwise.
macro_rules! harnesses {
    ($( ($name:ident, $unwind:literal, $stub:ident, $body:expr) ),* $(,)?) => {
        #[cfg(kani)]
        mod proofs {
            use super::*;
            $( harnesses!(@proof $name, $unwind, $stub, $body); )*
        }
        pub const NAMES: &[&str] = &[ $( stringify!($name) ),* ];
        #[cfg(not(kani))]
        pub fn dispatch(name: &str, s: &mut src::ReplaySrc) -> bool {
            match name {
                $( stringify!($name) => { ($body)(s); true } )*
                _ => false,
            }
        }
    };
    (@proof $name:ident, $unwind:literal, nostub, $body:expr) => {
        #[kani::proof]
        #[kani::unwind($unwind)]
        pub fn $name() { let mut s = src::KaniSrc; ($body)(&mut s); }
    };
    (@proof $name:ident, $unwind:literal, nogrow, $body:expr) => {
        #[kani::proof]
        #[kani::unwind($unwind)]
        #[kani::stub(std::alloc::Global::grow_impl_runtime, crate::stubs::grow_unreachable)]
        #[kani::stub(std::alloc::Global::alloc_impl_runtime, crate::stubs::alloc_ladder)]
        pub fn $name() { let mut s = src::KaniSrc; ($body)(&mut s); }
    };
    (@proof $name:ident, $unwind:literal, growmodel, $body:expr) => {
        #[kani::proof]
        #[kani::unwind($unwind)]
        #[kani::stub(std::alloc::Global::grow_impl_runtime, crate::stubs::grow_model)]
        #[kani::stub(std::alloc::Global::alloc_impl_runtime, crate::stubs::alloc_ladder)]
        #[kani::stub(std::vec::Vec::append_elements, crate::stubs::append_elements_model)]
        #[kani::stub(std::vec::Vec::insert, crate::stubs::insert_model)]
        pub fn $name() { let mut s = src::KaniSrc; ($body)(&mut s); }
    };
}

include!("registry.rs");
