//! Observer harnesses: no mutation, result compared with the abstract map of the injected arena.

use crate::arena::*;
use crate::oracle::*;
use crate::spec::*;
use crate::src::Src;

/// common pre-state: arbitrary WF arena of N slots, empty free list, consistent counter
pub fn pre<S: Src, const N: usize>(s: &mut S) -> ([Raw; N], [bool; N]) {
    let nodes = any_nodes::<S, N>(s);
    let r = reach(&nodes);
    s.assume(wf(&nodes, &r));
    (nodes, r)
}

/// C01/C18: get, contains_key, get_key_value vs lookup
pub fn get<S: Src, const N: usize>(s: &mut S) {
    let (nodes, r) = pre::<S, N>(s);
    let map = mk_map_simple(&nodes, &r);
    let q = any_p(s);
    let exp = lookup(&nodes, &r, &q);
    let got = map.get(&q).copied();
    check!(s, got == exp.and_then(|i| nodes[i].1), "C01:get/value");
    check!(s, map.contains_key(&q) == exp.is_some(), "C01:contains_key");
    let kv = map.get_key_value(&q).map(|(p, v)| (*p, *v));
    check!(s, kv == exp.map(|i| (nodes[i].0, nodes[i].1.unwrap())), "C01,C18:get_key_value/stored-repr");
    cover!(s, exp.is_some() && q.1 == W, "hit full-length");
    cover!(s, exp.is_some() && q.1 == 0, "hit zero-length");
    cover!(s, exp.is_some() && q.0 != nodes[exp.unwrap()].0 .0, "hit with different host bits");
    cover!(s, exp.is_none() && node_at(&nodes, &r, &q).is_some(), "miss on value-less node");
    std::mem::forget(map);
}

/// machinery self-test: a deliberately wrong assertion, used to exercise playback + replay
pub fn selftest_fail<S: Src, const N: usize>(s: &mut S) {
    let (nodes, r) = pre::<S, N>(s);
    let map = mk_map_simple(&nodes, &r);
    let q = any_p(s);
    let got = map.get(&q).copied();
    check!(s, got != Some(7) || q.1 != 3, "SELFTEST:deliberately-false");
    std::mem::forget(map);
}
