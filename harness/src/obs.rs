//! Observer harnesses: no mutation, result compared with the abstract map of the injected arena.

use crate::arena::*;
use crate::oracle::*;
use crate::spec::*;
use crate::src::Src;

/// common pre-state: arbitrary WF arena of N slots, empty free list, consistent counter
pub fn pre<S: Src, const N: usize>(s: &mut S) -> ([Raw; N], [bool; N]) {
    let nodes = any_nodes::<S, N>(s);
    let r = reach(&nodes);
    s.assume(wf(&nodes, &r));
    (nodes, r)
}

/// C01/C18: get, contains_key, get_key_value vs lookup
pub fn get<S: Src, const N: usize>(s: &mut S) {
    let (nodes, r) = pre::<S, N>(s);
    let map = mk_map_simple(&nodes, &r);
    let q = any_p(s);
    let exp = lookup(&nodes, &r, &q);
    let got = map.get(&q).copied();
    check!(s, got == exp.and_then(|i| nodes[i].1), "C01:get/value");
    check!(s, map.contains_key(&q) == exp.is_some(), "C01:contains_key");
    let kv = map.get_key_value(&q).map(|(p, v)| (*p, *v));
    check!(s, kv == exp.map(|i| (nodes[i].0, nodes[i].1.unwrap())), "C01,C18:get_key_value/stored-repr");
    cover!(s, exp.is_some() && q.1 == W, "hit full-length");
    cover!(s, exp.is_some() && q.1 == 0, "hit zero-length");
    cover!(s, exp.is_some() && q.0 != nodes[exp.unwrap()].0 .0, "hit with different host bits");
    cover!(s, exp.is_none() && node_at(&nodes, &r, &q).is_some(), "miss on value-less node");
    std::mem::forget(map);
}

/// machinery self-test: a deliberately wrong assertion, used to exercise playback + replay
pub fn selftest_fail<S: Src, const N: usize>(s: &mut S) {
    let (nodes, r) = pre::<S, N>(s);
    let map = mk_map_simple(&nodes, &r);
    let q = any_p(s);
    let got = map.get(&q).copied();
    check!(s, got != Some(7) || q.1 != 3, "SELFTEST:deliberately-false");
    std::mem::forget(map);
}

/// the arena is unchanged except (optionally) the value of slot `z`
pub fn unchanged_except<S: Src, const N: usize>(
    s: &mut S,
    map: &prefix_trie::PrefixMap<P, u8>,
    nodes: &[Raw; N],
    z: Option<(usize, u8)>,
) -> bool {
    let (post, len) = readback::<N>(map);
    let mut ok = len == N && map.__verif_free().len() == 0;
    let mut i = 0;
    while i < N {
        let mut exp = nodes[i];
        if let Some((zi, w)) = z {
            if zi == i {
                exp.1 = Some(w);
            }
        }
        ok = ok && post[i] == exp;
        i += 1;
    }
    ok
}

/// C01/C13: get_mut returns the value slot of the stored key; a write lands exactly there
pub fn get_mut<S: Src, const N: usize>(s: &mut S) {
    let (nodes, r) = pre::<S, N>(s);
    let mut map = mk_map_simple(&nodes, &r);
    let q = any_p(s);
    let w = s.u8();
    let exp = lookup(&nodes, &r, &q);
    let mut addr: *const u8 = std::ptr::null();
    match map.get_mut(&q) {
        Some(v) => {
            check!(s, exp.is_some() && Some(*v) == nodes[exp.unwrap_or(0)].1, "C01,C13:get_mut returns the stored value");
            *v = w;
            addr = v as *mut u8 as *const u8;
        }
        None => {
            check!(s, exp.is_none(), "C01,C13:get_mut is None iff key absent");
        }
    }
    if let Some(i) = exp {
        check!(s, addr == map.__verif_value_ptr(i), "C13,C14:get_mut hands out the value slot of the key's node");
    }
    check!(s, unchanged_except(s, &map, &nodes, exp.map(|i| (i, w))), "C13:write through get_mut changes exactly that entry");
    check!(s, map.len() == count(&nodes, &r), "C04:get_mut keeps len");
    cover!(s, exp.is_some() && q.1 == W, "hit full-length");
    cover!(s, exp.is_none(), "miss");
    std::mem::forget(map);
}

/// C02: get_lpm, get_lpm_prefix vs the longest covering entry
pub fn lpm<S: Src, const N: usize>(s: &mut S) {
    let (nodes, r) = pre::<S, N>(s);
    let map = mk_map_simple(&nodes, &r);
    let q = any_p(s);
    let exp = crate::oracle::lpm(&nodes, &r, &q);
    let got = map.get_lpm(&q).map(|(p, v)| (*p, *v));
    check!(s, got == exp.map(|i| (nodes[i].0, nodes[i].1.unwrap())), "C02,C18:get_lpm returns the longest covering entry (stored bytes, value)");
    let gp = map.get_lpm_prefix(&q).copied();
    check!(s, gp == exp.map(|i| nodes[i].0), "C02,C18:get_lpm_prefix returns the longest covering prefix");
    if let Some((p, _)) = got {
        check!(s, covers(&p, &q), "C02:reported match covers the query");
    }
    cover!(s, exp.is_some() && q.1 == W, "full-length query with a match");
    cover!(s, exp == Some(0), "answer is the zero-length entry");
    cover!(s, exp.is_some() && same(&nodes[exp.unwrap()].0, &q), "query itself is stored");
    cover!(s, exp.is_none() && q.1 > 0, "no covering entry");
    // a value-less node strictly between the answer and q
    let mut between = false;
    let mut i = 0;
    while i < N {
        if r[i] && nodes[i].1.is_none() && i != 0 && covers(&nodes[i].0, &q) {
            if let Some(e) = exp {
                if nodes[i].0 .1 > nodes[e].0 .1 {
                    between = true;
                }
            }
        }
        i += 1;
    }
    cover!(s, between, "value-less node between the answer and the query");
    std::mem::forget(map);
}

/// C02/C13: get_lpm_mut
pub fn lpm_mut<S: Src, const N: usize>(s: &mut S) {
    let (nodes, r) = pre::<S, N>(s);
    let mut map = mk_map_simple(&nodes, &r);
    let q = any_p(s);
    let w = s.u8();
    let exp = crate::oracle::lpm(&nodes, &r, &q);
    let mut addr: *const u8 = std::ptr::null();
    let mut paddr: *const P = std::ptr::null();
    match map.get_lpm_mut(&q) {
        Some((p, v)) => {
            check!(s, exp.is_some() && (*p, *v) == (nodes[exp.unwrap_or(0)].0, nodes[exp.unwrap_or(0)].1.unwrap_or(0)), "C02,C13:get_lpm_mut returns the longest covering entry");
            *v = w;
            addr = v as *mut u8 as *const u8;
            paddr = p as *const P;
        }
        None => {
            check!(s, exp.is_none(), "C02,C13:get_lpm_mut is None iff nothing covers the query");
        }
    }
    if let Some(i) = exp {
        check!(s, addr == map.__verif_value_ptr(i) && paddr == map.__verif_prefix_ptr(i), "C13,C14:get_lpm_mut hands out the slot of the matching node");
    }
    check!(s, unchanged_except(s, &map, &nodes, exp.map(|i| (i, w))), "C13:write through get_lpm_mut changes exactly that entry");
    cover!(s, exp == Some(0), "answer is the zero-length entry");
    cover!(s, exp.is_some() && exp != Some(0), "answer below the root");
    cover!(s, exp.is_none(), "no match");
    std::mem::forget(map);
}

/// C09: get_spm, get_spm_prefix vs the shortest covering entry
pub fn spm<S: Src, const N: usize>(s: &mut S) {
    let (nodes, r) = pre::<S, N>(s);
    let map = mk_map_simple(&nodes, &r);
    let q = any_p(s);
    let exp = crate::oracle::spm(&nodes, &r, &q);
    let got = map.get_spm(&q).map(|(p, v)| (*p, *v));
    check!(s, got == exp.map(|i| (nodes[i].0, nodes[i].1.unwrap())), "C09,C18:get_spm returns the shortest covering entry");
    let gp = map.get_spm_prefix(&q).copied();
    check!(s, gp == exp.map(|i| nodes[i].0), "C09,C18:get_spm_prefix returns the shortest covering prefix");
    cover!(s, exp == Some(0), "answer is the zero-length entry");
    cover!(s, exp.is_some() && exp != Some(0) && !same(&nodes[exp.unwrap()].0, &q), "answer strictly between root and query");
    cover!(s, exp.is_some() && same(&nodes[exp.unwrap()].0, &q), "only the query itself is stored");
    cover!(s, exp.is_none(), "no covering entry");
    std::mem::forget(map);
}

/// C09: cover(q) yields exactly the covering entries by increasing length; first = spm, last = lpm
pub fn cover<S: Src, const N: usize>(s: &mut S) {
    let (nodes, r) = pre::<S, N>(s);
    let map = mk_map_simple(&nodes, &r);
    let q = any_p(s);
    let z = s.idx(N); // probe slot
    let total = covering_count(&nodes, &r, &q);
    let mut it = map.cover(&q);
    let mut steps = 0usize;
    let mut last: Option<P> = None;
    let mut first: Option<P> = None;
    let mut seen_z = 0usize;
    let mut ended = false;
    let mut k = 0;
    while k < N {
        match it.next() {
            Some((p, v)) => {
                check!(s, !ended, "C09:no item after cover returned None (no premature None, fused)");
                steps += 1;
                check!(s, covers(p, &q), "C09:cover item covers the query");
                let at = lookup(&nodes, &r, p);
                check!(s, at.is_some() && nodes[at.unwrap_or(0)].0 == *p && nodes[at.unwrap_or(0)].1 == Some(*v), "C09,C18:cover item is a stored entry (stored bytes, value)");
                if let Some(lp) = last {
                    check!(s, lp.1 < p.1, "C09:cover yields strictly increasing lengths");
                }
                if first.is_none() {
                    first = Some(*p);
                }
                last = Some(*p);
                if at == Some(z) {
                    seen_z += 1;
                }
            }
            None => ended = true,
        }
        k += 1;
    }
    check!(s, it.next().is_none(), "C09:cover is exhausted after at most N items and stays exhausted");
    check!(s, it.next().is_none(), "C09:cover is fused");
    check!(s, steps == total, "C09:cover yields every covering entry");
    let z_cov = entry(&nodes, &r, z) && covers(&nodes[z].0, &q);
    check!(s, seen_z == if z_cov { 1 } else { 0 }, "C09:each covering entry exactly once, nothing else");
    check!(s, first == crate::oracle::spm(&nodes, &r, &q).map(|i| nodes[i].0), "C09:first cover item is the shortest match");
    check!(s, last == crate::oracle::lpm(&nodes, &r, &q).map(|i| nodes[i].0), "C09,C02:last cover item is the longest match");
    check!(s, map.get_lpm_prefix(&q).copied() == last, "C09,C02:get_lpm agrees with the last cover item");
    cover!(s, total >= 2, "two or more covering entries");
    cover!(s, total >= 1 && entry(&nodes, &r, 0), "zero-length entry covers");
    cover!(s, total == 0, "nothing covers");
    std::mem::forget(map);
}

/// C09: cover_keys / cover_values are the projections of cover
pub fn cover_proj<S: Src, const N: usize>(s: &mut S) {
    let (nodes, r) = pre::<S, N>(s);
    let map = mk_map_simple(&nodes, &r);
    let q = any_p(s);
    let mut it = map.cover(&q);
    let mut ik = map.cover_keys(&q);
    let mut iv = map.cover_values(&q);
    let mut k = 0;
    while k <= N {
        let a = it.next().map(|(p, v)| (*p, *v));
        let b = ik.next().copied();
        let c = iv.next().copied();
        check!(s, a.map(|x| x.0) == b, "C09:cover_keys is the key projection of cover");
        check!(s, a.map(|x| x.1) == c, "C09:cover_values is the value projection of cover");
        k += 1;
    }
    cover!(s, covering_count(&nodes, &r, &q) >= 2, "two or more covering entries");
    std::mem::forget(map);
}

/// set twins: contains / get / get_lpm / get_spm / cover / len on a PrefixSet
pub fn set_obs<S: Src, const N: usize>(s: &mut S) {
    let (nodes, r) = pre::<S, N>(s);
    #[cfg(kani)]
    {
        crate::stubs::allow_alloc(0, N * std::mem::size_of::<(P, Option<()>, Option<usize>, Option<usize>)>());
        crate::stubs::allow_alloc(1, N * 40);
    }
    let mut v: Vec<(P, Option<()>, Option<usize>, Option<usize>)> = Vec::with_capacity(N);
    let mut i = 0;
    while i < N {
        v.push((nodes[i].0, nodes[i].1.map(|_| ()), nodes[i].2, nodes[i].3));
        i += 1;
    }
    let set = prefix_trie::PrefixSet::__verif_from_map(prefix_trie::PrefixMap::__verif_from_raw(v, &[], 0, count(&nodes, &r), N, 0));
    let q = any_p(s);
    let at = lookup(&nodes, &r, &q);
    check!(s, set.contains(&q) == at.is_some(), "C01:set contains");
    check!(s, set.get(&q).copied() == at.map(|i| nodes[i].0), "C01,C18:set get returns the stored representation");
    check!(s, set.get_lpm(&q).copied() == crate::oracle::lpm(&nodes, &r, &q).map(|i| nodes[i].0), "C02,C18:set get_lpm");
    check!(s, set.get_spm(&q).copied() == crate::oracle::spm(&nodes, &r, &q).map(|i| nodes[i].0), "C09,C18:set get_spm");
    check!(s, set.len() == count(&nodes, &r) && set.is_empty() == (count(&nodes, &r) == 0), "C04:set len/is_empty");
    let mut it = set.cover(&q);
    let mut steps = 0;
    let mut last: Option<P> = None;
    let mut ended = false;
    let mut k = 0;
    while k <= N {
        let x = it.next();
        if x.is_none() {
            ended = true;
        }
        if let Some(p) = x {
            check!(s, !ended, "C09:no item after set cover returned None");
            steps += 1;
            check!(s, covers(p, &q) && lookup(&nodes, &r, p).is_some(), "C09:set cover item is a covering entry");
            if let Some(lp) = last {
                check!(s, lp.1 < p.1, "C09:set cover yields increasing lengths");
            }
            last = Some(*p);
        }
        k += 1;
    }
    check!(s, steps == covering_count(&nodes, &r, &q), "C09:set cover yields every covering entry");
    cover!(s, at.is_some() && q.0 != nodes[at.unwrap()].0 .0, "hit with different host bits");
    cover!(s, covering_count(&nodes, &r, &q) >= 2, "two covering entries");
    std::mem::forget(set);
}

/// C09: cover(q) on the 4-slot chain root -> 1 -> 2 -> 3 (concrete child indices, symbolic sides,
/// prefixes and values): the smallest shape with two consecutive value-less non-root nodes on the
/// path to the query.
pub fn cover_chain<S: Src>(s: &mut S) {
    const N: usize = 4;
    let mut nodes = any_nodes::<S, N>(s);
    let mut i = 0;
    while i < N {
        let right = s.bool();
        let c = if i + 1 < N { Some(i + 1) } else { None };
        nodes[i].2 = if right { None } else { c };
        nodes[i].3 = if right { c } else { None };
        i += 1;
    }
    let r = [true; N];
    s.assume(wf(&nodes, &r));
    let map = mk_map_simple(&nodes, &r);
    let q = any_p(s);
    let total = covering_count(&nodes, &r, &q);
    let mut it = map.cover(&q);
    let mut steps = 0usize;
    let mut last: Option<P> = None;
    let mut ended = false;
    let mut k = 0;
    while k < N {
        let x = it.next();
        if x.is_none() {
            ended = true;
        }
        if let Some((p, _)) = x {
            check!(s, !ended, "C09:no item after cover returned None (no premature None, fused)");
            steps += 1;
            check!(s, covers(p, &q) && lookup(&nodes, &r, p).is_some(), "C09:cover item is a stored entry covering the query");
            if let Some(lp) = last {
                check!(s, lp.1 < p.1, "C09:cover yields strictly increasing lengths");
            }
            last = Some(*p);
        }
        k += 1;
    }
    check!(s, it.next().is_none(), "C09:cover is exhausted after at most N items and stays exhausted");
    check!(s, steps == total, "C09:cover yields every covering entry");
    check!(s, last == crate::oracle::lpm(&nodes, &r, &q).map(|i| nodes[i].0), "C09,C02:last cover item is the longest match");
    cover!(s, total >= 1 && nodes[1].1.is_none() && nodes[2].1.is_none() && nodes[3].1.is_some() && covers(&nodes[3].0, &q), "two consecutive value-less nodes above a covering entry");
    cover!(s, total >= 2, "two or more covering entries");
    std::mem::forget(map);
}

/// C01/C18: `entry(p)` as an observer: Occupied iff the key is stored, `Entry::get` / `key` and the
/// handle-level `get` / `key` return the stored value / stored representation (the argument's
/// bytes for a vacant entry); the map is unchanged when the entry is dropped.
pub fn entry_obs<S: Src, const N: usize>(s: &mut S) {
    use prefix_trie::map::Entry;
    let (nodes, r) = pre::<S, N>(s);
    let mut map = mk_map_simple(&nodes, &r);
    let p = any_p(s);
    let at = lookup(&nodes, &r, &p);
    {
        let e = map.entry(p);
        check!(s, matches!(e, Entry::Occupied(_)) == at.is_some(), "C01:entry occupied iff key stored");
        check!(s, e.get().copied() == at.and_then(|i| nodes[i].1), "C01:Entry::get");
        check!(s, *e.key() == at.map(|i| nodes[i].0).unwrap_or(p), "C18:Entry::key is the stored representation (or the argument when vacant)");
        match e {
            Entry::Occupied(o) => {
                check!(s, Some(*o.key()) == at.map(|i| nodes[i].0) && Some(*o.get()) == at.and_then(|i| nodes[i].1), "C01,C18:OccupiedEntry::{key,get}");
            }
            Entry::Vacant(v) => {
                check!(s, *v.key() == p, "C18:VacantEntry::key is the argument");
            }
        }
    }
    check!(s, unchanged_except(s, &map, &nodes, None) && map.len() == count(&nodes, &r), "C01,C04:dropping an entry handle leaves the map unchanged");
    cover!(s, at.is_some() && p.0 != nodes[at.unwrap()].0 .0, "occupied, argument with other host bits");
    cover!(s, at.is_none() && node_at(&nodes, &r, &p).is_some(), "vacant on a value-less node");
    cover!(s, at.is_none() && node_at(&nodes, &r, &p).is_none(), "vacant without a node");
    std::mem::forget(map);
}
