//! C17: the `Prefix` trait methods of every shipped type against the reference algebra, at full
//! width. Loop-free, so the solver covers the whole finite input space of each harness.

use crate::src::Src;
use num_traits::{PrimInt, ToPrimitive, NumCast};
use prefix_trie::Prefix;

fn any_u128<S: Src>(s: &mut S, bytes: usize) -> u128 {
    let mut r: u128 = 0;
    let mut i = 0;
    while i < 16 {
        if i < bytes {
            r = (r << 8) | s.u8() as u128;
        }
        i += 1;
    }
    r
}

#[inline(always)]
fn full(w: u32) -> u128 {
    if w >= 128 {
        u128::MAX
    } else {
        (1u128 << w) - 1
    }
}
/// network part of `r` at length `l` for width `w`
#[inline(always)]
fn mask_at(r: u128, l: u8, w: u32) -> u128 {
    let l = l as u32;
    if l == 0 {
        0
    } else if l >= w {
        r & full(w)
    } else {
        r & full(w) & !(full(w) >> l)
    }
}
#[inline(always)]
fn covers(ar: u128, al: u8, br: u128, bl: u8, w: u32) -> bool {
    al <= bl && mask_at(br, al, w) == mask_at(ar, al, w)
}
#[inline(always)]
fn bit(r: u128, l: u8, i: u8, w: u32) -> bool {
    (i as u32) < w && i < l && (mask_at(r, l, w) >> (w - 1 - i as u32)) & 1 == 1
}
/// number of equal leading bits (of the w-bit values), capped at w
#[inline(always)]
fn common_bits(x: u128, y: u128, w: u32) -> u32 {
    let d = (x ^ y) & full(w);
    if d == 0 {
        w
    } else {
        d.leading_zeros() - (128 - w)
    }
}

/// KEEPS: does the type keep host bits in `repr()` (cidr's `*Cidr` types do not)
pub fn algebra<S: Src, T: Prefix, const BYTES: usize, const KEEPS: bool>(s: &mut S)
where
    T::R: PrimInt + ToPrimitive + NumCast,
{
    let w = (BYTES * 8) as u32;
    let ar = any_u128(s, BYTES);
    let br = any_u128(s, BYTES);
    let cr = any_u128(s, BYTES);
    let al = s.u8();
    let bl = s.u8();
    let cl = s.u8();
    let i = s.u8();
    s.assume(al as u32 <= w && bl as u32 <= w && cl as u32 <= w);
    let conv = |x: u128| -> T::R { <T::R as NumCast>::from(x).unwrap() };
    let a = T::from_repr_len(conv(ar), al);
    let b = T::from_repr_len(conv(br), bl);
    let c = T::from_repr_len(conv(cr), cl);
    let u = |x: T::R| -> u128 { x.to_u128().unwrap() };

    check!(s, a.prefix_len() == al, "C17:from_repr_len keeps the length");
    check!(s, u(a.mask()) == mask_at(ar, al, w), "C17:mask is the representation masked to the length");
    if KEEPS {
        check!(s, u(a.repr()) == ar, "C17:repr keeps the host bits");
    } else {
        check!(s, u(a.repr()) == mask_at(ar, al, w), "C17:repr of a masking type is the network part");
    }
    // contains
    check!(s, a.contains(&b) == covers(ar, al, br, bl, w), "C17:contains is bitwise coverage of network parts");
    check!(s, a.contains(&a), "C17:contains is reflexive");
    if a.contains(&b) && b.contains(&c) {
        check!(s, a.contains(&c), "C17:contains is transitive");
    }
    if a.contains(&b) && b.contains(&a) {
        check!(s, a.eq(&b), "C17:mutual containment implies eq");
    }
    // eq
    check!(s, a.eq(&b) == (al == bl && mask_at(ar, al, w) == mask_at(br, bl, w)), "C17:eq compares network part and length only");
    // longest common prefix
    let l = a.longest_common_prefix(&b);
    let l2 = b.longest_common_prefix(&a);
    let mut exp_len = common_bits(mask_at(ar, al, w), mask_at(br, bl, w), w);
    if (al as u32) < exp_len {
        exp_len = al as u32;
    }
    if (bl as u32) < exp_len {
        exp_len = bl as u32;
    }
    check!(s, l.prefix_len() as u32 == exp_len, "C17:lcp length is min(len a, len b, equal leading bits)");
    check!(s, u(l.mask()) == mask_at(ar, exp_len as u8, w), "C17:lcp network part is the common network part");
    check!(s, u(l.repr()) == u(l.mask()), "C17:lcp has a zeroed host part");
    check!(s, l.contains(&a) && l.contains(&b), "C17:lcp covers both");
    check!(s, l.eq(&l2), "C17:lcp is symmetric");
    // bits
    check!(s, a.is_bit_set(i) == bit(ar, al, i, w), "C17:is_bit_set(i) is the i-th leading bit of the network part (false for i >= len)");
    // zero
    let z = T::zero();
    check!(s, z.prefix_len() == 0 && u(z.mask()) == 0 && z.contains(&a), "C17:zero() is the zero-length prefix");
    cover!(s, al as u32 == w && bl as u32 == w && a.eq(&b), "two equal full-length prefixes");
    cover!(s, al == 0 && bl as u32 == w, "zero-length against full-length");
    cover!(s, i as u32 >= w, "bit index beyond the width");
    cover!(s, exp_len == 0 && al > 0 && bl > 0, "nothing in common");
    cover!(s, ar != mask_at(ar, al, w), "host bits set in the argument of from_repr_len");
}
