//! C19 (equality, clone, rebuild), C10/C20 (retain with an observing predicate), C14 (interleaved
//! mutation of the two halves of a split), bounded histories from `new()`.

use crate::arena::*;
use crate::obs::pre;
use crate::oracle::*;
use crate::spec::*;
use crate::src::Src;
use prefix_trie::{AsView, AsViewMut, PrefixMap, PrefixSet};

/// oracle: same sequence of (stored bytes, value) pairs
fn same_entries<const N: usize>(a: &[Raw; N], ra: &[bool; N], b: &[Raw; N], rb: &[bool; N], with_values: bool) -> bool {
    let mut ok = count(a, ra) == count(b, rb);
    let mut x = 0;
    while x < N {
        if entry(a, ra, x) {
            let mut found = false;
            let mut y = 0;
            while y < N {
                if entry(b, rb, y) && b[y].0 == a[x].0 && (!with_values || b[y].1 == a[x].1) {
                    found = true;
                }
                y += 1;
            }
            ok = ok && found;
        }
        x += 1;
    }
    ok
}

fn announce_iter_stacks() {
    #[cfg(kani)]
    {
        crate::stubs::allow_alloc(3, 8); // vec![0]
        crate::stubs::allow_grow(0, 8, 32); // stack grows to capacity 4
        crate::stubs::allow_grow(1, 32, 64); // ... and 8
    }
}

/// C19: `==` / `!=` of two maps vs the sequence oracle
pub fn eq_map<S: Src, const N: usize>(s: &mut S) {
    let (mut a, ra) = pre::<S, N>(s);
    let (mut b, rb) = pre::<S, N>(s);
    if N == 1 {
        // a single slot is the childless root of length 0 (implied by WF); say so for symex
        a[0] = ((a[0].0 .0, 0), a[0].1, None, None);
        b[0] = ((b[0].0 .0, 0), b[0].1, None, None);
    }
    let ma = mk_map_simple(&a, &ra);
    let mb = mk_map_simple(&b, &rb);
    announce_iter_stacks();
    let exp = same_entries(&a, &ra, &b, &rb, true);
    check!(s, (ma == mb) == exp, "C19:maps are equal exactly when they store the same sequence of (stored prefix, value) pairs");
    if N > 1 {
        check!(s, (ma != mb) == !exp, "C19:!= is the negation of ==");
    }
    cover!(s, exp && count(&a, &ra) >= 1, "equal non-empty maps");
    cover!(s, !exp && count(&a, &ra) == 0 && count(&b, &rb) >= 1, "empty map against non-empty map");
    cover!(s, N < 2 || (!exp && count(&a, &ra) < count(&b, &rb) && count(&a, &ra) >= 1), "operands with different entry counts");
    cover!(s, N < 3 || (exp && (canon(&a, &ra) != canon(&b, &rb))), "equal contents, different shapes");
    cover!(s, !exp && count(&a, &ra) == 1 && count(&b, &rb) == 1 && same(&a[0].0, &b[0].0) && a[0].1 == b[0].1, "same key and value, different host bits");
    std::mem::forget(ma);
    std::mem::forget(mb);
}

fn mk_set<const N: usize>(nodes: &[Raw; N], r: &[bool; N]) -> PrefixSet<P> {
    #[cfg(kani)]
    crate::stubs::allow_alloc(0, N * 40);
    let mut v: Vec<(P, Option<()>, Option<usize>, Option<usize>)> = Vec::with_capacity(N);
    let mut i = 0;
    while i < N {
        v.push((nodes[i].0, nodes[i].1.map(|_| ()), nodes[i].2, nodes[i].3));
        i += 1;
    }
    PrefixSet::__verif_from_map(PrefixMap::__verif_from_raw(v, &[], 0, count(nodes, r), N, 0))
}

/// C19: `==` of two sets
pub fn eq_set<S: Src, const N: usize>(s: &mut S) {
    let (mut a, ra) = pre::<S, N>(s);
    let (mut b, rb) = pre::<S, N>(s);
    if N == 1 {
        a[0] = ((a[0].0 .0, 0), a[0].1, None, None);
        b[0] = ((b[0].0 .0, 0), b[0].1, None, None);
    }
    let sa = mk_set(&a, &ra);
    let sb = mk_set(&b, &rb);
    announce_iter_stacks();
    let exp = same_entries(&a, &ra, &b, &rb, false);
    check!(s, (sa == sb) == exp, "C19:sets are equal exactly when they store the same sequence of stored prefixes");
    cover!(s, exp && count(&a, &ra) >= 1, "equal non-empty sets");
    cover!(s, !exp && count(&a, &ra) == 0 && count(&b, &rb) >= 1, "empty set against non-empty set");
    std::mem::forget(sa);
    std::mem::forget(sb);
}

/// C19/C04: clone() is equal (by the oracle, through read-back) and independent
pub fn clone_indep<S: Src, const N: usize>(s: &mut S) {
    let (a, ra) = pre::<S, N>(s);
    let mut m = mk_map_simple(&a, &ra);
    #[cfg(kani)]
    {
        crate::stubs::allow_alloc(3, N * 40);
    }
    let mut c = m.clone();
    let (cn, clen) = readback::<N>(&c);
    let mut same_arena = clen == N && c.__verif_free().len() == 0 && c.len() == m.len();
    let mut i = 0;
    while i < N {
        same_arena = same_arena && cn[i] == a[i];
        i += 1;
    }
    check!(s, same_arena, "C19,C04:clone() holds the same entries, shape and len()");
    // mutate the clone (value write + removal), the original must not move; and vice versa
    let p = any_p(s);
    let w = s.u8();
    if let Some(v) = c.get_mut(&p) {
        *v = w;
    }
    c.remove_keep_tree(&p);
    check!(s, crate::obs::unchanged_except(s, &m, &a, None), "C19:mutating a clone leaves the original unchanged");
    let (c1, _) = readback::<N>(&c);
    if let Some(v) = m.get_mut(&p) {
        *v = w.wrapping_add(1);
    }
    let (c2, _) = readback::<N>(&c);
    let mut still = true;
    let mut i = 0;
    while i < N {
        still = still && c1[i] == c2[i];
        i += 1;
    }
    check!(s, still, "C19:mutating the original leaves the clone unchanged");
    cover!(s, lookup(&a, &ra, &p).is_some(), "mutated key is stored");
    std::mem::forget(m);
    std::mem::forget(c);
}

/// C19: `clone_from` (and thereby `ToOwned::clone_into`) onto a destination that already holds
/// entries: afterwards the destination is an exact copy of the source (entries, shape, len()),
/// nothing of its previous contents survives, and the source is untouched.
pub fn clone_from<S: Src, const N: usize>(s: &mut S) {
    let (a, ra) = pre::<S, N>(s);
    let (b, rb) = pre::<S, N>(s);
    let m = mk_map_simple(&a, &ra);
    let mut d = mk_map_simple(&b, &rb);
    #[cfg(kani)]
    {
        crate::stubs::allow_alloc(3, N * 40);
    }
    d.clone_from(&m);
    let (dn, dlen) = readback::<N>(&d);
    let mut same_arena = dlen == N && d.__verif_free().len() == 0;
    let mut i = 0;
    while i < N {
        same_arena = same_arena && dn[i] == a[i];
        i += 1;
    }
    check!(s, same_arena, "C19:clone_from() leaves an exact copy of the source (entries, values, shape)");
    check!(s, d.len() == count(&a, &ra) && d.is_empty() == (count(&a, &ra) == 0), "C19,C04:len() of the destination of clone_from() is the source's");
    let q = any_p(s);
    check!(s, d.get(&q).copied() == lookup_val(&a, &ra, &q), "C19:lookups in the destination of clone_from() answer like the source");
    check!(s, crate::obs::unchanged_except(s, &m, &a, None), "C19:clone_from() leaves the source unchanged");
    cover!(s, count(&b, &rb) > count(&a, &ra), "destination held more entries than the source");
    cover!(s, N < 2 || (entry(&b, &rb, 1) && rb[1] && ra[1] && !entry(&a, &ra, 1)), "a valued destination slot is overwritten by a value-less source node");
    std::mem::forget(m);
    std::mem::forget(d);
}

/// C01/C04/C19: bounded history from `new()`: two inserts (collect in both orders) then lookups;
/// rebuilding from the own entries in the other order yields an equal map.
pub fn collect2<S: Src>(s: &mut S) {
    #[cfg(kani)]
    {
        use crate::stubs::allow_alloc;
        use crate::stubs::allow_grow;
        allow_alloc(0, 40); // vec![root]
        allow_alloc(1, 32); // first push onto an empty Vec<usize>
        allow_alloc(2, 8); // vec![0]
        allow_grow(0, 40, 160); // arena 1 -> 4 -> 8 nodes
        allow_grow(1, 160, 320);
        allow_grow(2, 8, 32); // iterator stacks 1 -> 4 -> 8
        allow_grow(3, 32, 64);
    }
    let p1 = any_p(s);
    let p2 = any_p(s);
    let v1 = s.u8();
    let v2 = s.u8();
    let q = any_p(s);
    let m1: PrefixMap<P, u8> = [(p1, v1), (p2, v2)].into_iter().collect();
    let exp = if same(&q, &p2) {
        Some((p2, v2))
    } else if same(&q, &p1) {
        Some((p1, v1))
    } else {
        None
    };
    check!(s, m1.get_key_value(&q).map(|(p, v)| (*p, *v)) == exp, "C01,C18:collect is a left-to-right fold of insert (last representation and value win)");
    check!(s, m1.len() == if same(&p1, &p2) { 1 } else { 2 }, "C04:len() after collect");
    if !same(&p1, &p2) {
        let m2: PrefixMap<P, u8> = [(p2, v2), (p1, v1)].into_iter().collect();
        check!(s, m1 == m2, "C19:rebuilding a map from its own entries in another order yields an equal map");
        std::mem::forget(m2);
    }
    cover!(s, !same(&p1, &p2) && covers(&p1, &p2), "nested keys");
    cover!(s, disjoint(&p1, &p2), "diverging keys (branch node)");
    cover!(s, same(&p1, &p2) && p1.0 != p2.0, "same key, different host bits");
    std::mem::forget(m1);
}

/// C10/C01/C04/C15/C16/C20: retain with a predicate that returns the k-th of N symbolic decisions
/// and observes the map (through a raw pointer) at every invocation.
/// `OBS`: observe the map at every predicate invocation (C20); otherwise only the final state.
pub fn retain<S: Src, const OBS: bool, const STRUCT: bool, const N: usize, const F: usize>(s: &mut S) {
    let pre = crate::step::pre::<S, N, F>(s);
    let mut map = mk_map(&pre.nodes, &pre.free, pre.count, N, N);
    let mut dec = [false; N];
    let mut i = 0;
    while i < N {
        dec[i] = s.bool();
        i += 1;
    }
    let z = s.idx(N); // probe slot
    let mut addr: [*const P; N] = [std::ptr::null(); N];
    let mut i = 0;
    while i < N {
        addr[i] = map.__verif_prefix_ptr(i);
        i += 1;
    }
    let mut calls = 0usize;
    let mut hits_z = 0usize;
    let mut keep_z = true;
    let mut rejected = 0usize;
    let mut bad_obs = false;
    let mp: *const PrefixMap<P, u8> = &map;
    map.retain(|p, v| {
        let k = calls;
        calls += 1;
        let keep = if k < N { dec[k] } else { true };
        if OBS {
            // state observed at the k-th invocation: this is what a panic here would leave behind
            let m: &PrefixMap<P, u8> = unsafe { &*mp };
            let (now, len) = readback::<N>(m);
            let r = reach(&now);
            bad_obs = bad_obs || !(len == N && wf(&now, &r) && m.__verif_count() == count(&now, &r) && count(&now, &r) + rejected == pre.count);
        }
        if p as *const P == addr[z] {
            hits_z += 1;
            keep_z = keep;
            bad_obs = bad_obs || pre.nodes[z].1 != Some(*v) || pre.nodes[z].0 != *p;
        }
        if !keep {
            rejected += 1;
        }
        keep
    });
    let z_entry = entry(&pre.nodes, &pre.reach, z);
    check!(s, calls == pre.count, "C10:retain evaluates the predicate once per stored entry");
    check!(s, hits_z == if z_entry { 1 } else { 0 }, "C10:retain evaluates the predicate exactly once for each entry (with its stored prefix and value)");
    check!(s, !bad_obs, "C20:at every predicate invocation the map is well-formed, size-consistent and holds the previous entries minus those already rejected");
    check!(s, map.len() == pre.count - rejected, "C04:len() after retain");
    if !STRUCT && !OBS {
        let got = map.get_key_value(&pre.nodes[z].0).map(|(p, v)| (*p, *v));
        let exp = if z_entry && keep_z { Some((pre.nodes[z].0, pre.nodes[z].1.unwrap())) } else if z_entry { None } else { got };
        check!(s, got == exp, "C10,C01:retain removes exactly the rejected entries and keeps the others with value and representation");
    }
    if STRUCT {
        crate::step::check_structure::<S, { crate::step::SHAPE | crate::step::SLOTS }, N, F, N, N>(s, &pre, &map, true);
    }
    cover!(s, rejected >= 2, "two or more entries rejected");
    cover!(s, rejected == 1 && pre.count >= 2, "one rejected, one kept");
    cover!(s, N < 3 || (rejected >= 1 && map.__verif_free().len() >= pre.free.len + 2), "a rejection collapsed a value-less parent");
    std::mem::forget(map);
}

/// C14(c): two IterMut over the two halves of a split, advanced in an arbitrary interleaving; the
/// final arena equals the sequential result (left entries f(v), right entries g(v), rest unchanged).
pub fn split_interleave<S: Src, const N: usize>(s: &mut S) {
    let (nodes, r) = pre::<S, N>(s);
    let sub = subtree(&nodes);
    let mut map = mk_map_simple(&nodes, &r);
    #[cfg(kani)]
    {
        crate::stubs::allow_alloc(3, 8);
        crate::stubs::allow_grow(0, 8, 32);
        crate::stubs::allow_grow(1, 32, 64);
    }
    let idx = s.idx(N);
    s.assume(r[idx] && nodes[idx].2.is_some() && nodes[idx].3.is_some());
    let (li, ri) = (nodes[idx].2.unwrap(), nodes[idx].3.unwrap());
    let z = s.idx(N);
    {
        let v = map.__verif_view_mut(None, idx);
        let (l, rr) = v.split();
        check!(s, l.is_some() && rr.is_some(), "C11,C14:split of a node with two children yields both sides");
        if let (Some(l), Some(rr)) = (l, rr) {
            let mut il = l.into_iter();
            let mut ir = rr.into_iter();
            let mut k = 0;
            while k < 2 * N {
                let pick = s.bool();
                if pick {
                    if let Some((_, v)) = il.next() {
                        *v = v.wrapping_mul(2).wrapping_add(1);
                    }
                } else if let Some((_, v)) = ir.next() {
                    *v = v.wrapping_add(100);
                }
                k += 1;
            }
            // drain whatever the schedule left over
            let mut k = 0;
            while k < N {
                if let Some((_, v)) = il.next() {
                    *v = v.wrapping_mul(2).wrapping_add(1);
                }
                if let Some((_, v)) = ir.next() {
                    *v = v.wrapping_add(100);
                }
                k += 1;
            }
            std::mem::forget(il);
            std::mem::forget(ir);
        }
    }
    let (post, len) = readback::<N>(&map);
    let mut exp = nodes[z];
    if let Some(v) = exp.1 {
        if sub[li][z] {
            exp.1 = Some(v.wrapping_mul(2).wrapping_add(1));
        } else if sub[ri][z] {
            exp.1 = Some(v.wrapping_add(100));
        }
    }
    check!(s, len == N && post[z] == exp, "C14:interleaved mutation of the two halves of a split equals the sequential result");
    cover!(s, entry(&nodes, &r, z) && sub[li][z], "probe entry in the left half");
    cover!(s, entry(&nodes, &r, z) && sub[ri][z], "probe entry in the right half");
    cover!(s, N < 4 || (entry(&nodes, &r, z) && sub[li][z] && z != li), "probe entry deeper in the left half");
    std::mem::forget(map);
}

/// C15 lemma (specification level, no code under test): two canonical well-formed arenas with the
/// same key set have the same node set, so "CANON is preserved" means "shape identical to a freshly
/// built map".
pub fn canon_unique<S: Src, const N: usize>(s: &mut S) {
    let (a, ra) = pre::<S, N>(s);
    let (b, rb) = pre::<S, N>(s);
    s.assume(canon(&a, &ra) && canon(&b, &rb));
    // equal key sets
    let mut same_keys = true;
    let mut i = 0;
    while i < N {
        if entry(&a, &ra, i) {
            same_keys = same_keys && lookup(&b, &rb, &a[i].0).is_some();
        }
        if entry(&b, &rb, i) {
            same_keys = same_keys && lookup(&a, &ra, &b[i].0).is_some();
        }
        i += 1;
    }
    s.assume(same_keys);
    let q = any_p(s);
    check!(s, node_at(&a, &ra, &q).is_some() == node_at(&b, &rb, &q).is_some(), "C15:canonical tries with equal key sets have equal node sets");
    cover!(s, count(&a, &ra) >= 2 && node_at(&a, &ra, &q).is_some() && lookup(&a, &ra, &q).is_none() && q.1 > 0, "a branching node");
}

/// C10/C15/C16: retain on one concrete 7-slot shape that exercises the "my parent was collapsed"
/// propagation two levels deep (symbolic values and predicate decisions, concrete topology):
///   root -> P=0/1 (value-less) -> { I=00/2 (value-less) -> { L1=000/3, L2=001/3 }, S=01/2 -> C=010/3 }
pub fn retain_shape7<S: Src>(s: &mut S) {
    const N: usize = 7;
    let v1 = s.u8();
    let v2 = s.u8();
    let v3 = s.u8();
    let v4 = s.u8();
    let nodes: [Raw; N] = [
        ((0x00, 0), None, Some(1), None),
        ((0x00, 1), None, Some(2), Some(5)),
        ((0x00, 2), None, Some(3), Some(4)),
        ((0x00, 3), Some(v1), None, None),
        ((0x20, 3), Some(v2), None, None),
        ((0x40, 2), Some(v3), Some(6), None),
        ((0x40, 3), Some(v4), None, None),
    ];
    let r = [true; N];
    let mut dec = [false; 4];
    let mut i = 0;
    while i < 4 {
        dec[i] = s.bool();
        i += 1;
    }
    let mut map = mk_map::<N, 0>(&nodes, &Free::<0>::empty(), 4, N, N);
    let mut calls = 0usize;
    // post-order: L1, L2, C, S
    let keep = |p: &P| -> bool {
        if *p == (0x00, 3) {
            dec[0]
        } else if *p == (0x20, 3) {
            dec[1]
        } else if *p == (0x40, 3) {
            dec[2]
        } else {
            dec[3]
        }
    };
    map.retain(|p, _| {
        calls += 1;
        keep(p)
    });
    check!(s, calls == 4, "C10:retain evaluates the predicate once per stored entry");
    let kept = (dec[0] as usize) + (dec[1] as usize) + (dec[2] as usize) + (dec[3] as usize);
    check!(s, map.len() == kept, "C04:len() after retain");
    check!(s, map.get(&(0x00, 3)).copied() == if dec[0] { Some(v1) } else { None }, "C10,C01:retain keeps/removes L1 as decided");
    check!(s, map.get(&(0x20, 3)).copied() == if dec[1] { Some(v2) } else { None }, "C10,C01:retain keeps/removes L2 as decided");
    check!(s, map.get(&(0x40, 3)).copied() == if dec[2] { Some(v4) } else { None }, "C10,C01:retain keeps/removes C as decided");
    check!(s, map.get(&(0x40, 2)).copied() == if dec[3] { Some(v3) } else { None }, "C10,C01:retain keeps/removes S as decided");
    let (post, len) = readback::<N>(&map);
    let pr = reach(&post);
    check!(s, len == N && wf(&post, &pr), "C15:post-state well-formed");
    check!(s, canon(&post, &pr), "C15:post-state canonical");
    check!(s, map.__verif_count() == count(&post, &pr), "C04,C15:counter equals number of reachable entries");
    let fl = map.__verif_free();
    let mut pok = fl.len() < N;
    let mut i = 1;
    while i < N {
        let mut on = 0;
        let mut j = 0;
        while j < N {
            if j < fl.len() && fl[j] == i {
                on += 1;
            }
            j += 1;
        }
        pok = pok && (if pr[i] { on == 0 } else { on == 1 });
        i += 1;
    }
    check!(s, pok, "C16:every slot is in the tree xor on the free list (exactly once)");
    cover!(s, !dec[0] && !dec[1] && !dec[3], "both leaves and the sibling rejected (two collapses in a row)");
    cover!(s, !dec[3] && dec[2], "sibling rejected, its child kept");
    std::mem::forget(map);
}


/// bounded history from an empty map (arena capacity reserved, so no growth): insert, then one of
/// {insert, remove, remove_keep_tree, entry().or_insert} chosen by a symbolic opcode, then lookups.
/// No invariant is assumed: this guards against a representation invariant that is too strong.
pub fn hist2<S: Src, const OP: u8>(s: &mut S) {
    let root: [Raw; 1] = [((0, 0), None, None, None)];
    let mut map = mk_map::<1, 0>(&root, &Free::<0>::empty(), 0, 5, 4);
    let p1 = any_p(s);
    let v1 = s.u8();
    let p2 = any_p(s);
    let v2 = s.u8();
    let q = any_p(s);
    let op = OP;
    let r1 = map.insert(p1, v1);
    check!(s, r1.is_none() && map.len() == 1, "C01,C04:first insert into an empty map");
    // abstract state: one pair
    let mut e1: Option<(P, u8)> = Some((p1, v1));
    let mut e2: Option<(P, u8)> = None;
    match op {
        0 => {
            let r = map.insert(p2, v2);
            check!(s, r == if same(&p1, &p2) { Some(v1) } else { None }, "C01:insert returns previous value");
            if same(&p1, &p2) {
                e1 = Some((p2, v2));
            } else {
                e2 = Some((p2, v2));
            }
        }
        1 => {
            let r = map.remove(&p2);
            check!(s, r == if same(&p1, &p2) { Some(v1) } else { None }, "C01:remove returns removed value");
            if same(&p1, &p2) {
                e1 = None;
            }
        }
        2 => {
            let r = map.remove_keep_tree(&p2);
            check!(s, r == if same(&p1, &p2) { Some(v1) } else { None }, "C01:remove_keep_tree returns removed value");
            if same(&p1, &p2) {
                e1 = None;
            }
        }
        _ => {
            let r = *map.entry(p2).or_insert(v2);
            check!(s, r == if same(&p1, &p2) { v1 } else { v2 }, "C01:or_insert returns resident value");
            if !same(&p1, &p2) {
                e2 = Some((p2, v2));
            }
        }
    }
    let n = e1.is_some() as usize + e2.is_some() as usize;
    check!(s, map.len() == n && map.is_empty() == (n == 0), "C04:len()/is_empty() after two operations");
    let exp = match (e2, e1) {
        (Some(x), _) if same(&x.0, &q) => Some(x),
        (_, Some(x)) if same(&x.0, &q) => Some(x),
        _ => None,
    };
    check!(s, map.get_key_value(&q).map(|(p, v)| (*p, *v)) == exp, "C01,C18:lookups after a two-step history from new()");
    if op == 1 && same(&p1, &p2) {
        check!(s, map.__verif_len() - map.__verif_free().len() == 1, "C15,C16:remove exactly reverts insert (only the root remains in use)");
    }
    cover!(s, op != 0 || disjoint(&p1, &p2), "two diverging inserts (branch node)");
    cover!(s, op != 0 || covers_strict(&p2, &p1), "second insert above the first (new intermediate child)");
    cover!(s, op == 0 || (same(&p1, &p2) && p1.0 != p2.0), "second call addresses the first key by another representation");
    std::mem::forget(map);
}

/// C19: building a map from the same two entries in both orders yields the same abstract map and
/// the same canonical shape (compared through read-back; `==` itself is decided at N=1).
pub fn rebuild2<S: Src>(s: &mut S) {
    let root: [Raw; 1] = [((0, 0), None, None, None)];
    let mut m1 = mk_map::<1, 0>(&root, &Free::<0>::empty(), 0, 4, 1);
    let mut m2 = mk_map::<1, 0>(&root, &Free::<0>::empty(), 0, 4, 1);
    let p1 = any_p(s);
    let v1 = s.u8();
    let p2 = any_p(s);
    let v2 = s.u8();
    s.assume(!same(&p1, &p2));
    m1.insert(p1, v1);
    m1.insert(p2, v2);
    m2.insert(p2, v2);
    m2.insert(p1, v1);
    let (a, la) = readback::<4>(&m1);
    let (b, lb) = readback::<4>(&m2);
    let (ra, rb) = (reach(&a), reach(&b));
    check!(s, same_entries(&a, &ra, &b, &rb, true), "C19:rebuilding from the same entries in another order stores the same sequence of (prefix, value) pairs");
    let q = any_p(s);
    check!(s, la == lb && node_at(&a, &ra, &q).is_some() == node_at(&b, &rb, &q).is_some(), "C15:the shape does not depend on the insertion order");
    check!(s, m1.len() == 2 && m2.len() == 2, "C04:len() after two inserts");
    cover!(s, disjoint(&p1, &p2), "diverging keys");
    cover!(s, covers(&p1, &p2), "nested keys");
    std::mem::forget(m1);
    std::mem::forget(m2);
}

/// C10/C01/C04 (+C15/C16 with STRUCT): retain with a value-dependent predicate (keep even values):
/// since the values are symbolic, every combination of decisions is covered.
pub fn retain_lite<S: Src, const STRUCT: bool, const N: usize>(s: &mut S) {
    let pre = crate::step::pre::<S, N, 0>(s);
    let mut map = mk_map(&pre.nodes, &pre.free, pre.count, N, N);
    let q = any_p(s);
    let mut calls = 0usize;
    map.retain(|_, v| {
        calls += 1;
        *v & 1 == 0
    });
    let mut kept = 0usize;
    let mut i = 0;
    while i < N {
        if entry(&pre.nodes, &pre.reach, i) && pre.nodes[i].1.unwrap() & 1 == 0 {
            kept += 1;
        }
        i += 1;
    }
    check!(s, calls == pre.count, "C10:retain evaluates the predicate once per stored entry");
    check!(s, map.len() == kept, "C04:len() after retain");
    if STRUCT {
        crate::step::check_structure::<S, { crate::step::SHAPE | crate::step::SLOTS }, N, 0, N, N>(s, &pre, &map, true);
    } else {
        let exp = lookup(&pre.nodes, &pre.reach, &q).map(|i| (pre.nodes[i].0, pre.nodes[i].1.unwrap())).filter(|x| x.1 & 1 == 0);
        check!(s, map.get_key_value(&q).map(|(p, v)| (*p, *v)) == exp, "C10,C01:retain removes exactly the rejected entries and keeps the others with value and representation");
    }
    cover!(s, pre.count >= 2 && kept == 0, "all entries rejected");
    cover!(s, pre.count >= 2 && kept == 1, "one rejected, one kept");
    cover!(s, N < 3 || (pre.count > kept && map.__verif_free().len() >= 2), "a rejection collapsed a value-less parent");
    std::mem::forget(map);
}

/// C04/C10/C01: retain (keep even values) on the 3-slot fork root -> {1, 2} (concrete child
/// indices, leaves; prefixes and values symbolic): the smallest shape in which a rejected entry keeps
/// both children (the root), with recursion depth 2 only.
pub fn retain_fork<S: Src>(s: &mut S) {
    const N: usize = 3;
    let mut nodes = any_nodes::<S, N>(s);
    nodes[0].2 = Some(1);
    nodes[0].3 = Some(2);
    nodes[1].2 = None;
    nodes[1].3 = None;
    nodes[2].2 = None;
    nodes[2].3 = None;
    let r = [true; N];
    s.assume(wf(&nodes, &r));
    let cnt = count(&nodes, &r);
    let mut map = mk_map::<N, 0>(&nodes, &Free::<0>::empty(), cnt, N, N);
    let q = any_p(s);
    let mut calls = 0usize;
    map.retain(|_, v| {
        calls += 1;
        *v & 1 == 0
    });
    let mut kept = 0usize;
    let mut i = 0;
    while i < N {
        if nodes[i].1.map(|v| v & 1 == 0).unwrap_or(false) {
            kept += 1;
        }
        i += 1;
    }
    check!(s, calls == cnt, "C10:retain evaluates the predicate once per stored entry");
    check!(s, map.len() == kept && map.is_empty() == (kept == 0), "C04:len() after retain");
    let exp = lookup(&nodes, &r, &q).map(|i| (nodes[i].0, nodes[i].1.unwrap())).filter(|x| x.1 & 1 == 0);
    check!(s, map.get_key_value(&q).map(|(p, v)| (*p, *v)) == exp, "C10,C01:retain removes exactly the rejected entries and keeps the others with value and representation");
    let (post, _) = readback::<N>(&map);
    let pr = reach(&post);
    check!(s, map.__verif_count() == count(&post, &pr), "INV,C04,C15:counter equals number of reachable entries");
    cover!(s, nodes[0].1.map(|v| v & 1 == 1).unwrap_or(false) && kept == 2, "root rejected, both leaves kept");
    cover!(s, kept == 0 && cnt == 3, "everything rejected");
    std::mem::forget(map);
}
