//! C19 (equality, clone, rebuild), C10/C20 (retain with an observing predicate), C14 (interleaved
//! mutation of the two halves of a split), bounded histories from `new()`.

use crate::arena::*;
use crate::obs::pre;
use crate::oracle::*;
use crate::spec::*;
use crate::src::Src;
use prefix_trie::{AsView, AsViewMut, PrefixMap, PrefixSet};

/// oracle: same sequence of (stored bytes, value) pairs
fn same_entries<const N: usize>(a: &[Raw; N], ra: &[bool; N], b: &[Raw; N], rb: &[bool; N], with_values: bool) -> bool {
    let mut ok = count(a, ra) == count(b, rb);
    let mut x = 0;
    while x < N {
        if entry(a, ra, x) {
            let mut found = false;
            let mut y = 0;
            while y < N {
                if entry(b, rb, y) && b[y].0 == a[x].0 && (!with_values || b[y].1 == a[x].1) {
                    found = true;
                }
                y += 1;
            }
            ok = ok && found;
        }
        x += 1;
    }
    ok
}

fn announce_iter_stacks() {
    #[cfg(kani)]
    {
        crate::stubs::allow_alloc(3, 8); // vec![0]
        crate::stubs::allow_grow(0, 8, 32); // stack grows to capacity 4
        crate::stubs::allow_grow(1, 32, 64); // ... and 8
    }
}

/// C19: `==` / `!=` of two maps vs the sequence oracle
pub fn eq_map<S: Src, const N: usize>(s: &mut S) {
    let (a, ra) = pre::<S, N>(s);
    let (b, rb) = pre::<S, N>(s);
    let ma = mk_map_simple(&a, &ra);
    let mb = mk_map_simple(&b, &rb);
    announce_iter_stacks();
    let exp = same_entries(&a, &ra, &b, &rb, true);
    check!(s, (ma == mb) == exp, "C19:maps are equal exactly when they store the same sequence of (stored prefix, value) pairs");
    check!(s, (ma != mb) == !exp, "C19:!= is the negation of ==");
    cover!(s, exp && count(&a, &ra) >= 1, "equal non-empty maps");
    cover!(s, !exp && count(&a, &ra) == 0 && count(&b, &rb) >= 1, "empty map against non-empty map");
    cover!(s, !exp && count(&a, &ra) < count(&b, &rb) && count(&a, &ra) >= 1, "operands with different entry counts");
    cover!(s, exp && N >= 3 && (canon(&a, &ra) != canon(&b, &rb)), "equal contents, different shapes");
    std::mem::forget(ma);
    std::mem::forget(mb);
}

fn mk_set<const N: usize>(nodes: &[Raw; N], r: &[bool; N]) -> PrefixSet<P> {
    #[cfg(kani)]
    crate::stubs::allow_alloc(0, N * 40);
    let mut v: Vec<(P, Option<()>, Option<usize>, Option<usize>)> = Vec::with_capacity(N);
    let mut i = 0;
    while i < N {
        v.push((nodes[i].0, nodes[i].1.map(|_| ()), nodes[i].2, nodes[i].3));
        i += 1;
    }
    PrefixSet::__verif_from_map(PrefixMap::__verif_from_raw(v, &[], 0, count(nodes, r), N, 0))
}

/// C19: `==` of two sets
pub fn eq_set<S: Src, const N: usize>(s: &mut S) {
    let (a, ra) = pre::<S, N>(s);
    let (b, rb) = pre::<S, N>(s);
    let sa = mk_set(&a, &ra);
    let sb = mk_set(&b, &rb);
    announce_iter_stacks();
    let exp = same_entries(&a, &ra, &b, &rb, false);
    check!(s, (sa == sb) == exp, "C19:sets are equal exactly when they store the same sequence of stored prefixes");
    cover!(s, exp && count(&a, &ra) >= 1, "equal non-empty sets");
    cover!(s, !exp && count(&a, &ra) == 0 && count(&b, &rb) >= 1, "empty set against non-empty set");
    std::mem::forget(sa);
    std::mem::forget(sb);
}

/// C19/C04: clone() is equal (by the oracle, through read-back) and independent
pub fn clone_indep<S: Src, const N: usize>(s: &mut S) {
    let (a, ra) = pre::<S, N>(s);
    let mut m = mk_map_simple(&a, &ra);
    #[cfg(kani)]
    {
        crate::stubs::allow_alloc(3, N * 40);
    }
    let mut c = m.clone();
    let (cn, clen) = readback::<N>(&c);
    let mut same_arena = clen == N && c.__verif_free().len() == 0 && c.len() == m.len();
    let mut i = 0;
    while i < N {
        same_arena = same_arena && cn[i] == a[i];
        i += 1;
    }
    check!(s, same_arena, "C19,C04:clone() holds the same entries, shape and len()");
    // mutate the clone (value write + removal), the original must not move; and vice versa
    let p = any_p(s);
    let w = s.u8();
    if let Some(v) = c.get_mut(&p) {
        *v = w;
    }
    c.remove_keep_tree(&p);
    check!(s, crate::obs::unchanged_except(s, &m, &a, None), "C19:mutating a clone leaves the original unchanged");
    let (c1, _) = readback::<N>(&c);
    if let Some(v) = m.get_mut(&p) {
        *v = w.wrapping_add(1);
    }
    let (c2, _) = readback::<N>(&c);
    let mut still = true;
    let mut i = 0;
    while i < N {
        still = still && c1[i] == c2[i];
        i += 1;
    }
    check!(s, still, "C19:mutating the original leaves the clone unchanged");
    cover!(s, lookup(&a, &ra, &p).is_some(), "mutated key is stored");
    std::mem::forget(m);
    std::mem::forget(c);
}

/// C01/C04/C19: bounded history from `new()`: two inserts (collect in both orders) then lookups;
/// rebuilding from the own entries in the other order yields an equal map.
pub fn collect2<S: Src>(s: &mut S) {
    #[cfg(kani)]
    {
        use crate::stubs::allow_alloc;
        use crate::stubs::allow_grow;
        allow_alloc(0, 40); // vec![root]
        allow_alloc(1, 32); // first push onto an empty Vec<usize>
        allow_alloc(2, 8); // vec![0]
        allow_grow(0, 40, 160); // arena 1 -> 4 -> 8 nodes
        allow_grow(1, 160, 320);
        allow_grow(2, 8, 32); // iterator stacks 1 -> 4 -> 8
        allow_grow(3, 32, 64);
    }
    let p1 = any_p(s);
    let p2 = any_p(s);
    let v1 = s.u8();
    let v2 = s.u8();
    let q = any_p(s);
    let m1: PrefixMap<P, u8> = [(p1, v1), (p2, v2)].into_iter().collect();
    let exp = if same(&q, &p2) {
        Some((p2, v2))
    } else if same(&q, &p1) {
        Some((p1, v1))
    } else {
        None
    };
    check!(s, m1.get_key_value(&q).map(|(p, v)| (*p, *v)) == exp, "C01,C18:collect is a left-to-right fold of insert (last representation and value win)");
    check!(s, m1.len() == if same(&p1, &p2) { 1 } else { 2 }, "C04:len() after collect");
    if !same(&p1, &p2) {
        let m2: PrefixMap<P, u8> = [(p2, v2), (p1, v1)].into_iter().collect();
        check!(s, m1 == m2, "C19:rebuilding a map from its own entries in another order yields an equal map");
        std::mem::forget(m2);
    }
    cover!(s, !same(&p1, &p2) && covers(&p1, &p2), "nested keys");
    cover!(s, disjoint(&p1, &p2), "diverging keys (branch node)");
    cover!(s, same(&p1, &p2) && p1.0 != p2.0, "same key, different host bits");
    std::mem::forget(m1);
}

/// C10/C01/C04/C15/C16/C20: retain with a predicate that returns the k-th of N symbolic decisions
/// and observes the map (through a raw pointer) at every invocation.
pub fn retain<S: Src, const N: usize, const F: usize>(s: &mut S) {
    let pre = crate::step::pre::<S, N, F>(s);
    let mut map = mk_map(&pre.nodes, &pre.free, pre.count, N, N);
    let mut dec = [false; N];
    let mut i = 0;
    while i < N {
        dec[i] = s.bool();
        i += 1;
    }
    let z = s.idx(N); // probe slot
    let mut addr: [*const P; N] = [std::ptr::null(); N];
    let mut i = 0;
    while i < N {
        addr[i] = map.__verif_prefix_ptr(i);
        i += 1;
    }
    let mut calls = 0usize;
    let mut hits_z = 0usize;
    let mut keep_z = true;
    let mut rejected = 0usize;
    let mut bad_obs = false;
    let mp: *const PrefixMap<P, u8> = &map;
    map.retain(|p, v| {
        let k = calls;
        calls += 1;
        let keep = if k < N { dec[k] } else { true };
        // state observed at the k-th invocation: this is what a panic here would leave behind
        let m: &PrefixMap<P, u8> = unsafe { &*mp };
        let (now, len) = readback::<N>(m);
        let r = reach(&now);
        bad_obs = bad_obs || !(len == N && wf(&now, &r) && m.__verif_count() == count(&now, &r) && count(&now, &r) + rejected == pre.count);
        if p as *const P == addr[z] {
            hits_z += 1;
            keep_z = keep;
            bad_obs = bad_obs || pre.nodes[z].1 != Some(*v) || pre.nodes[z].0 != *p;
        }
        if !keep {
            rejected += 1;
        }
        keep
    });
    let z_entry = entry(&pre.nodes, &pre.reach, z);
    check!(s, calls == pre.count, "C10:retain evaluates the predicate once per stored entry");
    check!(s, hits_z == if z_entry { 1 } else { 0 }, "C10:retain evaluates the predicate exactly once for each entry (with its stored prefix and value)");
    check!(s, !bad_obs, "C20:at every predicate invocation the map is well-formed, size-consistent and holds the previous entries minus those already rejected");
    check!(s, map.len() == pre.count - rejected, "C04:len() after retain");
    let got = map.get_key_value(&pre.nodes[z].0).map(|(p, v)| (*p, *v));
    let exp = if z_entry && keep_z { Some((pre.nodes[z].0, pre.nodes[z].1.unwrap())) } else if z_entry { None } else { got };
    check!(s, got == exp, "C10,C01:retain removes exactly the rejected entries and keeps the others with value and representation");
    crate::step::check_structure::<S, { crate::step::SHAPE | crate::step::SLOTS }, N, F, N, N>(s, &pre, &map, true);
    cover!(s, rejected >= 2, "two or more entries rejected");
    cover!(s, rejected == 1 && pre.count >= 2, "one rejected, one kept");
    cover!(s, N < 3 || (rejected >= 1 && map.__verif_free().len() >= pre.free.len + 2), "a rejection collapsed a value-less parent");
    std::mem::forget(map);
}

/// C14(c): two IterMut over the two halves of a split, advanced in an arbitrary interleaving; the
/// final arena equals the sequential result (left entries f(v), right entries g(v), rest unchanged).
pub fn split_interleave<S: Src, const N: usize>(s: &mut S) {
    let (nodes, r) = pre::<S, N>(s);
    let sub = subtree(&nodes);
    let mut map = mk_map_simple(&nodes, &r);
    #[cfg(kani)]
    {
        crate::stubs::allow_alloc(3, 8);
        crate::stubs::allow_grow(0, 8, 32);
        crate::stubs::allow_grow(1, 32, 64);
    }
    let idx = s.idx(N);
    s.assume(r[idx] && nodes[idx].2.is_some() && nodes[idx].3.is_some());
    let (li, ri) = (nodes[idx].2.unwrap(), nodes[idx].3.unwrap());
    let z = s.idx(N);
    {
        let v = map.__verif_view_mut(None, idx);
        let (l, rr) = v.split();
        check!(s, l.is_some() && rr.is_some(), "C11,C14:split of a node with two children yields both sides");
        if let (Some(l), Some(rr)) = (l, rr) {
            let mut il = l.into_iter();
            let mut ir = rr.into_iter();
            let mut k = 0;
            while k < 2 * N {
                let pick = s.bool();
                if pick {
                    if let Some((_, v)) = il.next() {
                        *v = v.wrapping_mul(2).wrapping_add(1);
                    }
                } else if let Some((_, v)) = ir.next() {
                    *v = v.wrapping_add(100);
                }
                k += 1;
            }
            // drain whatever the schedule left over
            let mut k = 0;
            while k < N {
                if let Some((_, v)) = il.next() {
                    *v = v.wrapping_mul(2).wrapping_add(1);
                }
                if let Some((_, v)) = ir.next() {
                    *v = v.wrapping_add(100);
                }
                k += 1;
            }
            std::mem::forget(il);
            std::mem::forget(ir);
        }
    }
    let (post, len) = readback::<N>(&map);
    let mut exp = nodes[z];
    if let Some(v) = exp.1 {
        if sub[li][z] {
            exp.1 = Some(v.wrapping_mul(2).wrapping_add(1));
        } else if sub[ri][z] {
            exp.1 = Some(v.wrapping_add(100));
        }
    }
    check!(s, len == N && post[z] == exp, "C14:interleaved mutation of the two halves of a split equals the sequential result");
    cover!(s, entry(&nodes, &r, z) && sub[li][z], "probe entry in the left half");
    cover!(s, entry(&nodes, &r, z) && sub[ri][z], "probe entry in the right half");
    cover!(s, N < 4 || (entry(&nodes, &r, z) && sub[li][z] && z != li), "probe entry deeper in the left half");
    std::mem::forget(map);
}

/// C15 lemma (specification level, no code under test): two canonical well-formed arenas with the
/// same key set have the same node set, so "CANON is preserved" means "shape identical to a freshly
/// built map".
pub fn canon_unique<S: Src, const N: usize>(s: &mut S) {
    let (a, ra) = pre::<S, N>(s);
    let (b, rb) = pre::<S, N>(s);
    s.assume(canon(&a, &ra) && canon(&b, &rb));
    // equal key sets
    let mut same_keys = true;
    let mut i = 0;
    while i < N {
        if entry(&a, &ra, i) {
            same_keys = same_keys && lookup(&b, &rb, &a[i].0).is_some();
        }
        if entry(&b, &rb, i) {
            same_keys = same_keys && lookup(&a, &ra, &b[i].0).is_some();
        }
        i += 1;
    }
    s.assume(same_keys);
    let q = any_p(s);
    check!(s, node_at(&a, &ra, &q).is_some() == node_at(&b, &rb, &q).is_some(), "C15:canonical tries with equal key sets have equal node sets");
    cover!(s, count(&a, &ra) >= 2 && node_at(&a, &ra, &q).is_some() && lookup(&a, &ra, &q).is_none() && q.1 > 0, "a branching node");
}
