//! Value source abstraction: the same harness body runs symbolically under Kani (`KaniSrc`,
//! every draw is a `kani::any()`) and natively on the bytes of a counterexample (`ReplaySrc`).
//!
//! Every draw is a `u8` or a `bool`, i.e. exactly one byte in Kani's concrete-playback output, so a
//! counterexample is a flat list of bytes in draw order.

pub trait Src {
    fn u8(&mut self) -> u8;
    fn bool(&mut self) -> bool;
    fn assume(&mut self, c: bool);
    /// native mode only: record the outcome of an assertion
    fn check(&mut self, c: bool, label: &'static str);
    /// native mode only: record a cover witness
    fn cover(&mut self, c: bool, label: &'static str);
    /// draw an index `< n`
    fn idx(&mut self, n: usize) -> usize {
        let i = self.u8();
        self.assume((i as usize) < n);
        i as usize
    }
    /// draw an optional index `< n`
    fn opt_idx(&mut self, n: usize) -> Option<usize> {
        let some = self.bool();
        let i = self.idx(n);
        if some {
            Some(i)
        } else {
            None
        }
    }
    fn opt_u8(&mut self) -> Option<u8> {
        let some = self.bool();
        let v = self.u8();
        if some {
            Some(v)
        } else {
            None
        }
    }
}

#[cfg(kani)]
pub struct KaniSrc;

#[cfg(kani)]
impl Src for KaniSrc {
    #[inline(always)]
    fn u8(&mut self) -> u8 {
        kani::any()
    }
    #[inline(always)]
    fn bool(&mut self) -> bool {
        kani::any()
    }
    #[inline(always)]
    fn assume(&mut self, c: bool) {
        kani::assume(c)
    }
    #[inline(always)]
    fn check(&mut self, _c: bool, _label: &'static str) {}
    #[inline(always)]
    fn cover(&mut self, _c: bool, _label: &'static str) {}
}

/// Marker payload for a violated assumption during replay (the byte vector does not describe a
/// state the harness admits).
pub struct AssumeViolated;

#[derive(Default)]
pub struct ReplaySrc {
    pub bytes: Vec<u8>,
    pub pos: usize,
    pub exhausted: bool,
    pub failed: Vec<&'static str>,
    pub passed: usize,
    pub covered: Vec<&'static str>,
}

impl ReplaySrc {
    pub fn new(bytes: Vec<u8>) -> Self {
        Self {
            bytes,
            ..Default::default()
        }
    }
    fn next(&mut self) -> u8 {
        if self.pos < self.bytes.len() {
            let b = self.bytes[self.pos];
            self.pos += 1;
            b
        } else {
            self.exhausted = true;
            0
        }
    }
}

impl Src for ReplaySrc {
    fn u8(&mut self) -> u8 {
        self.next()
    }
    fn bool(&mut self) -> bool {
        self.next() & 1 == 1
    }
    fn assume(&mut self, c: bool) {
        if !c {
            std::panic::panic_any(AssumeViolated);
        }
    }
    fn check(&mut self, c: bool, label: &'static str) {
        if c {
            self.passed += 1;
        } else if !self.failed.contains(&label) {
            self.failed.push(label);
        }
    }
    fn cover(&mut self, c: bool, label: &'static str) {
        if c && !self.covered.contains(&label) {
            self.covered.push(label);
        }
    }
}

/// assertion with a role-specific label; the label is what known-findings are keyed by.
#[macro_export]
macro_rules! check {
    ($s:expr, $c:expr, $l:literal) => {{
        let __c: bool = $c;
        #[cfg(kani)]
        kani::assert(__c, $l);
        #[cfg(not(kani))]
        $crate::src::Src::check($s, __c, $l);
    }};
}

/// vacuity / reachability witness
#[macro_export]
macro_rules! cover {
    ($s:expr, $c:expr, $l:literal) => {{
        let __c: bool = $c;
        #[cfg(kani)]
        kani::cover!(__c, $l);
        #[cfg(not(kani))]
        $crate::src::Src::cover($s, __c, $l);
    }};
}
