//! Native replayer: runs a harness body on the concrete bytes of a counterexample.
//! usage: replay <harness> <hex bytes>
//! prints one JSON line: {"harness":..,"status":"fail|pass|assume-violated|panic|unknown-harness","failed":[..],"covered":[..],"panic":..}
#[cfg(kani)]
fn main() {}

#[cfg(not(kani))]
fn main() {
    use pt_verif::src::{AssumeViolated, ReplaySrc};
    let args: Vec<String> = std::env::args().collect();
    if args.len() < 3 {
        eprintln!("usage: replay <harness> <hexbytes>");
        std::process::exit(2);
    }
    let name = args[1].clone();
    let hex = args[2].trim();
    let bytes: Vec<u8> = (0..hex.len() / 2)
        .map(|i| u8::from_str_radix(&hex[2 * i..2 * i + 2], 16).unwrap())
        .collect();
    let mut src = ReplaySrc::new(bytes);
    std::panic::set_hook(Box::new(|_| {}));
    let res = std::panic::catch_unwind(std::panic::AssertUnwindSafe(|| {
        pt_verif::dispatch(&name, &mut src)
    }));
    let q = |v: &Vec<&'static str>| {
        v.iter()
            .map(|s| format!("\"{}\"", s.replace('"', "'")))
            .collect::<Vec<_>>()
            .join(",")
    };
    let (status, panic_msg) = match res {
        Ok(false) => ("unknown-harness", String::new()),
        Ok(true) => (if src.failed.is_empty() { "pass" } else { "fail" }, String::new()),
        Err(e) => {
            if e.downcast_ref::<AssumeViolated>().is_some() {
                ("assume-violated", String::new())
            } else if let Some(m) = e.downcast_ref::<String>() {
                ("panic", m.clone())
            } else if let Some(m) = e.downcast_ref::<&str>() {
                ("panic", m.to_string())
            } else {
                ("panic", "?".to_string())
            }
        }
    };
    println!(
        "{{\"harness\":\"{}\",\"status\":\"{}\",\"failed\":[{}],\"covered\":[{}],\"passed\":{},\"bytes_used\":{},\"exhausted\":{},\"panic\":\"{}\"}}",
        name,
        status,
        q(&src.failed),
        q(&src.covered),
        src.passed,
        src.pos,
        src.exhausted,
        panic_msg.replace('\\', "/").replace('"', "'")
    );
}
