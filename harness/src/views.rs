//! Views (C11, C12, C13, C14, C04): construction, navigation, search and access relative to the
//! region oracle `region(view) = subtree(loc.idx)`.

use crate::arena::*;
use crate::obs::pre;
use crate::oracle::*;
use crate::spec::*;
use crate::src::Src;
use prefix_trie::{AsView, AsViewMut, PrefixMap, TrieView, TrieViewMut};

/// a view location: node `idx`, or a virtual prefix strictly above node `idx`
#[derive(Clone, Copy)]
pub struct Loc {
    pub virt: Option<P>,
    pub idx: usize,
}

impl Loc {
    /// the prefix the view stands for
    pub fn prefix<const N: usize>(&self, nodes: &[Raw; N]) -> P {
        match self.virt {
            Some(p) => p,
            None => nodes[self.idx].0,
        }
    }
}

/// any location a view can have: `Node(i)` for reachable `i`, `Virtual(p, i)` with `p` strictly
/// covering the prefix of reachable `i` (what `find`/`view_at` produce)
pub fn any_loc<S: Src, const N: usize>(s: &mut S, nodes: &[Raw; N], r: &[bool; N]) -> Loc {
    let idx = s.idx(N);
    s.assume(r[idx]);
    let is_virt = s.bool();
    let p = any_p(s);
    if is_virt {
        s.assume(covers_strict(&p, &nodes[idx].0));
        Loc { virt: Some(p), idx }
    } else {
        Loc { virt: None, idx }
    }
}

fn read_loc(l: (Option<&P>, usize)) -> Loc {
    Loc {
        virt: l.0.copied(),
        idx: l.1,
    }
}

fn loc_eq(a: &Loc, b: &Loc) -> bool {
    a.idx == b.idx && a.virt.is_some() == b.virt.is_some() && (a.virt.is_none() || a.virt == b.virt)
}

/// C11: view_at / view_mut_at on the whole map
pub fn view_at<S: Src, const MUT: bool, const N: usize>(s: &mut S) {
    let (nodes, r) = pre::<S, N>(s);
    let sub = subtree(&nodes);
    let mut map = mk_map_simple(&nodes, &r);
    let q = any_p(s);
    let z = s.idx(N);
    let inside = covered_count(&nodes, &r, &q);
    let got: Option<(Loc, P, Option<u8>)> = if MUT {
        (&mut map).view_mut_at(q).map(|v| (read_loc(v.__verif_loc()), *v.prefix(), v.value().copied()))
    } else {
        (&map).view_at(q).map(|v| (read_loc(v.__verif_loc()), *v.prefix(), v.value().copied()))
    };
    match got {
        None => {
            check!(s, inside == 0, "C11:view_at returns None only if nothing is covered by q");
            check!(s, q.1 > 0, "C11:the whole-map view always exists");
        }
        Some((loc, vp, vv)) => {
            check!(s, loc.idx < N && r[loc.idx], "C11:view sits on a node of the tree");
            check!(s, same(&vp, &q), "C11:view prefix is q in network form");
            check!(s, vv == lookup_val(&nodes, &r, &q), "C11:view value is the value stored exactly at q");
            match loc.virt {
                None => {
                    check!(s, same(&nodes[loc.idx].0, &q), "C11:node view sits on the node of q");
                    check!(s, vp == nodes[loc.idx].0, "C11,C18:node view reports the stored representation");
                }
                Some(_) => {
                    check!(s, covers_strict(&q, &nodes[loc.idx].0) && node_at(&nodes, &r, &q).is_none(), "C11:virtual view sits strictly above its node and q has no node");
                }
            }
            // region = entries covered by q
            if entry(&nodes, &r, z) {
                check!(s, sub[loc.idx][z] == covers(&q, &nodes[z].0), "C11:view addresses exactly the entries covered by q");
            }
            if canon(&nodes, &r) && q.1 > 0 {
                check!(s, inside > 0, "C11:on canonical tries a sub-view exists only if it has an entry");
            }
        }
    }
    cover!(s, matches!(got, Some((Loc { virt: Some(_), .. }, _, _))), "virtual view");
    cover!(s, matches!(got, Some((Loc { virt: None, .. }, _, None))) && q.1 > 0, "view on a value-less (branching) node");
    cover!(s, got.is_none(), "no view");
    cover!(s, got.is_some() && q.0 != mask(&q), "query with host bits");
    std::mem::forget(map);
}

/// expected side of entry slot `z` relative to a view at `loc`: 0 own entry, 1 left, 2 right
fn side_of<const N: usize>(nodes: &[Raw; N], loc: &Loc, z: usize) -> u8 {
    let vp = loc.prefix(nodes);
    if loc.virt.is_none() && z == loc.idx {
        0
    } else if bit(&nodes[z].0, vp.1) {
        2
    } else {
        1
    }
}

/// C11/C14: left / right / split / has_left / has_right from any view location
pub fn nav<S: Src, const MUT: bool, const N: usize>(s: &mut S) {
    let (nodes, r) = pre::<S, N>(s);
    let sub = subtree(&nodes);
    let mut map = mk_map_simple(&nodes, &r);
    let loc = any_loc(s, &nodes, &r);
    let z = s.idx(N);
    s.assume(entry(&nodes, &r, z) && sub[loc.idx][z]);
    let side = side_of(&nodes, &loc, z);
    let (l, rr, hl, hr): (Option<Loc>, Option<Loc>, bool, bool);
    if MUT {
        let v = map.__verif_view_mut(loc.virt, loc.idx);
        {
            // borrowing a mutable view as a read-only one keeps its position
            let ro = (&v).view();
            check!(s, loc_eq(&read_loc(ro.__verif_loc()), &loc) && *ro.prefix() == loc.prefix(&nodes), "C11:a read-only borrow of a mutable view addresses the same position");
        }
        hl = v.has_left();
        hr = v.has_right();
        let op = s.u8();
        s.assume(op < 2);
        if op == 0 {
            let (a, b) = v.split();
            l = a.map(|x| read_loc(x.__verif_loc()));
            rr = b.map(|x| read_loc(x.__verif_loc()));
        } else {
            // left() / right() consume the view and hand it back on failure
            match v.left() {
                Ok(x) => {
                    l = Some(read_loc(x.__verif_loc()));
                    rr = map.__verif_view_mut(loc.virt, loc.idx).right().ok().map(|x| read_loc(x.__verif_loc()));
                }
                Err(v) => {
                    l = None;
                    check!(s, loc_eq(&read_loc(v.__verif_loc()), &loc), "C11,C12:a failed left() hands back the original view");
                    match v.right() {
                        Ok(x) => rr = Some(read_loc(x.__verif_loc())),
                        Err(v) => {
                            rr = None;
                            check!(s, loc_eq(&read_loc(v.__verif_loc()), &loc), "C11,C12:a failed right() hands back the original view");
                        }
                    }
                }
            }
        }
        check!(s, hl == l.is_some() && hr == rr.is_some(), "C11:has_left/has_right agree with left()/right()/split()");
    } else {
        let v = map.__verif_view(loc.virt, loc.idx);
        l = v.left().map(|x| read_loc(x.__verif_loc()));
        rr = v.right().map(|x| read_loc(x.__verif_loc()));
        hl = l.is_some();
        hr = rr.is_some();
    }
    let in_l = l.map(|x| x.idx < N && sub[x.idx][z]).unwrap_or(false);
    let in_r = rr.map(|x| x.idx < N && sub[x.idx][z]).unwrap_or(false);
    check!(s, in_l == (side == 1), "C11:left() addresses exactly the entries whose next bit is 0");
    check!(s, in_r == (side == 2), "C11:right() addresses exactly the entries whose next bit is 1");
    if let Some(x) = l {
        check!(s, x.virt.is_none() && sub[loc.idx][x.idx] && (loc.virt.is_some() || x.idx != loc.idx), "C14:left view lies inside the consumed view (strictly below a node view)");
    }
    if let Some(x) = rr {
        check!(s, x.virt.is_none() && sub[loc.idx][x.idx] && (loc.virt.is_some() || x.idx != loc.idx), "C14:right view lies inside the consumed view (strictly below a node view)");
    }
    if let (Some(a), Some(b)) = (l, rr) {
        check!(s, !sub[a.idx][b.idx] && !sub[b.idx][a.idx], "C14:the two sides are disjoint");
    }
    if canon(&nodes, &r) {
        // a side exists exactly when it has an entry
        let mut has_l = false;
        let mut has_r = false;
        let mut i = 0;
        while i < N {
            if entry(&nodes, &r, i) && sub[loc.idx][i] {
                let sd = side_of(&nodes, &loc, i);
                has_l = has_l || sd == 1;
                has_r = has_r || sd == 2;
            }
            i += 1;
        }
        check!(s, l.is_some() == has_l && rr.is_some() == has_r, "C11:on canonical tries a side exists exactly when it has an entry");
    }
    cover!(s, loc.virt.is_some() && l.is_some(), "left of a virtual view");
    cover!(s, loc.virt.is_some() && rr.is_some(), "right of a virtual view");
    cover!(s, loc.virt.is_none() && l.is_some() && rr.is_some(), "node view with both sides");
    cover!(s, side == 0, "probe is the view's own entry");
    std::mem::forget(map);
}

/// C12: find / find_exact / find_lpm / view_at from any view location, any query
pub fn find<S: Src, const MUT: bool, const OP: u8, const N: usize>(s: &mut S) {
    let (nodes, r) = pre::<S, N>(s);
    let sub = subtree(&nodes);
    let mut map = mk_map_simple(&nodes, &r);
    let loc = any_loc(s, &nodes, &r);
    let q = any_p(s);
    let z = s.idx(N);
    let within = sub[loc.idx];
    // result location, or the location handed back on failure
    let res: Result<Loc, Option<Loc>>;
    if MUT {
        let v = map.__verif_view_mut(loc.virt, loc.idx);
        let x = match OP {
            0 => v.find(q),
            1 => v.find_exact(&q),
            2 => v.find_lpm(&q),
            _ => match v.view_mut_at(q) {
                Some(x) => Ok(x),
                None => Err(map.__verif_view_mut(loc.virt, loc.idx)),
            },
        };
        res = match x {
            Ok(x) => Ok(read_loc(x.__verif_loc())),
            Err(x) => Err(Some(read_loc(x.__verif_loc()))),
        };
    } else {
        let v = map.__verif_view(loc.virt, loc.idx);
        let x = match OP {
            0 => v.find(q),
            1 => v.find_exact(&q),
            2 => v.find_lpm(&q),
            _ => v.view_at(q),
        };
        res = match x {
            Some(x) => Ok(read_loc(x.__verif_loc())),
            None => Err(None),
        };
    }
    if let Err(Some(back)) = res {
        check!(s, loc_eq(&back, &loc), "C12:a failed search hands back the original mutable view");
    }
    let got = res.ok();
    if let Some(g) = got {
        check!(s, g.idx < N && r[g.idx] && within[g.idx], "C12,C14:result lies inside the searched view");
    }
    match OP {
        1 => {
            // find_exact: the node of q, iff q is stored in the view
            let at = lookup(&nodes, &r, &q).filter(|i| within[*i]);
            check!(s, got.is_some() == at.is_some(), "C12:find_exact succeeds exactly when q is stored in the view");
            if let (Some(g), Some(a)) = (got, at) {
                check!(s, g.virt.is_none() && g.idx == a, "C12:find_exact returns the view positioned at q");
            }
        }
        2 => {
            let at = lpm_in(&nodes, &r, &within, &q);
            check!(s, got.is_some() == at.is_some(), "C12:find_lpm succeeds exactly when the view stores a prefix covering q");
            if let (Some(g), Some(a)) = (got, at) {
                check!(s, g.virt.is_none() && g.idx == a, "C12:find_lpm returns the longest prefix stored in the view that covers q");
            }
        }
        _ => {
            // find / view_at: a view addressing exactly the entries of v covered by q
            let mut any_in = false;
            let mut i = 0;
            while i < N {
                if entry(&nodes, &r, i) && within[i] && covers(&q, &nodes[i].0) {
                    any_in = true;
                }
                i += 1;
            }
            if got.is_none() {
                check!(s, !any_in, "C11,C12:find returns None only if the view has no entry covered by q");
            }
            if let Some(g) = got {
                if entry(&nodes, &r, z) {
                    check!(s, (g.idx < N && sub[g.idx][z]) == (within[z] && covers(&q, &nodes[z].0)), "C11,C12:find returns a view addressing exactly the entries of the view covered by q");
                }
                match g.virt {
                    Some(vp) => {
                        check!(s, same(&vp, &q) && covers_strict(&q, &nodes[g.idx].0), "C12,C11:a virtual result carries q and sits strictly above its node");
                    }
                    None => {
                        check!(s, same(&nodes[g.idx].0, &q), "C12,C11:a node result sits on the node of q");
                    }
                }
            }
        }
    }
    let vp = loc.prefix(&nodes);
    cover!(s, (OP == 0 || OP == 3) == got.is_some() && covers_strict(&q, &vp), "query strictly above the view");
    cover!(s, got.is_some() && covers_strict(&vp, &q), "query strictly inside the view");
    cover!(s, disjoint(&q, &vp), "query disjoint from the view");
    cover!(s, loc.virt.is_some() && got.is_some(), "search from a virtual view");
    cover!(s, loc.virt.is_some() && covers(&vp, &q) && covers_strict(&q, &nodes[loc.idx].0), "query between the virtual prefix and its node");
    std::mem::forget(map);
}

/// C13/C14/C04: value access through a mutable view touches only the view's own node.
/// OP: 0 value_mut write, 1 prefix_value_mut write, 2 set, 3 remove
pub fn access<S: Src, const OP: u8, const N: usize>(s: &mut S) {
    let (nodes, r) = pre::<S, N>(s);
    let mut map = mk_map_simple(&nodes, &r);
    let loc = any_loc(s, &nodes, &r);
    let w = s.u8();
    let own = if loc.virt.is_none() { Some(loc.idx) } else { None };
    let old = own.and_then(|i| nodes[i].1);
    let mut exp_val: Option<Option<u8>> = None; // new content of the own slot, if it changes
    let mut addr: *const u8 = std::ptr::null();
    {
        let mut v = map.__verif_view_mut(loc.virt, loc.idx);
        check!(s, v.value().copied() == old, "C11,C13:value() of a mutable view");
        check!(s, *v.prefix() == loc.prefix(&nodes), "C11,C18:prefix() of a mutable view");
        check!(s, v.prefix_value().map(|(p, t)| (*p, *t)) == old.map(|t| (nodes[loc.idx].0, t)), "C11,C13:prefix_value() of a mutable view");
        match OP {
            0 => match v.value_mut() {
                Some(x) => {
                    check!(s, Some(*x) == old, "C13:value_mut yields the current value");
                    *x = w;
                    addr = x as *mut u8 as *const u8;
                    exp_val = Some(Some(w));
                }
                None => check!(s, old.is_none(), "C13:value_mut is None iff the view's node holds no value"),
            },
            1 => match v.prefix_value_mut() {
                Some((p, x)) => {
                    check!(s, Some(*x) == old && *p == nodes[loc.idx].0, "C13,C18:prefix_value_mut yields the stored prefix and current value");
                    *x = w;
                    addr = x as *mut u8 as *const u8;
                    exp_val = Some(Some(w));
                }
                None => check!(s, old.is_none(), "C13:prefix_value_mut is None iff the view's node holds no value"),
            },
            2 => match v.set(w) {
                Ok(prev) => {
                    check!(s, own.is_some() && prev == old, "C13:set returns the previous value");
                    exp_val = Some(Some(w));
                }
                Err(back) => check!(s, own.is_none() && back == w, "C13:set fails (handing the value back) exactly on a virtual view"),
            },
            _ => {
                let got = v.remove();
                check!(s, got == old, "C13:remove returns the view's value");
                if old.is_some() {
                    exp_val = Some(None);
                }
            }
        }
    }
    if !addr.is_null() {
        check!(s, own.is_some() && addr == map.__verif_value_ptr(loc.idx), "C13,C14:the reference handed out is the value slot of the view's own node");
    }
    // the arena is unchanged except the own slot's value
    let (post, len) = readback::<N>(&map);
    let mut ok = len == N;
    let mut i = 0;
    while i < N {
        let mut e = nodes[i];
        if Some(i) == own {
            if let Some(nv) = exp_val {
                e.1 = nv;
            }
        }
        ok = ok && post[i] == e;
        i += 1;
    }
    check!(s, ok, "C13,C14,C15:access through a mutable view changes exactly the view's own value");
    // C04: len() must follow the number of entries
    let delta_plus = OP == 2 && own.is_some() && old.is_none();
    let delta_minus = OP == 3 && old.is_some();
    let exp_len = count(&nodes, &r) + if delta_plus { 1 } else { 0 } - if delta_minus { 1 } else { 0 };
    if OP == 2 {
        check!(s, map.len() == exp_len, "C04:len() after TrieViewMut::set");
    } else if OP == 3 {
        check!(s, map.len() == exp_len, "C04:len() after TrieViewMut::remove");
    } else {
        check!(s, map.len() == exp_len, "C04:len() after a value write through a view");
    }
    cover!(s, loc.virt.is_some(), "virtual view");
    cover!(s, own.is_some() && old.is_none(), "value-less own node");
    cover!(s, own.is_some() && old.is_some(), "valued own node");
    std::mem::forget(map);
}
