//! One-step harnesses for the mutators (DESIGN.md §3.6): arbitrary pre-state satisfying
//! WF ∧ FREE ∧ CNT, one public operation with symbolic arguments, then return value, abstract
//! post-map (probe), counter, well-formedness, canonicity and slot partition of the post-state.
//!
//! Assertions carry the id of the property they belong to; PART / CANON of the post-state are
//! asserted as implications from the same predicate on the pre-state, so that functional results
//! also cover states with leaked slots and non-canonical shapes.

use crate::arena::*;
use crate::oracle::*;
use crate::spec::*;
use crate::src::Src;
use prefix_trie::map::Entry;
use prefix_trie::PrefixMap;

/// assertion groups (const parameter `A` of every step harness): which obligations are compiled in
pub const RET: u8 = 1; // C01/C18: return value, abstract post-map at a probe, stored representation
pub const LEN: u8 = 2; // C04: len()/is_empty() delta
pub const SHAPE: u8 = 4; // C15: WF / CANON of the post-state
pub const SLOTS: u8 = 8; // C16: FREE / PART of the post-state, reuse-before-grow
pub const ALL: u8 = 15;

pub struct Pre<const N: usize, const F: usize> {
    pub nodes: [Raw; N],
    pub reach: [bool; N],
    pub free: Free<F>,
    pub count: usize,
    pub part: bool,
    pub canon: bool,
}

/// arbitrary pre-state: WF ∧ FREE ∧ CNT
pub fn pre<S: Src, const N: usize, const F: usize>(s: &mut S) -> Pre<N, F> {
    let nodes = any_nodes::<S, N>(s);
    let r = reach(&nodes);
    s.assume(wf(&nodes, &r));
    let free = any_free::<S, N, F>(s);
    s.assume(free_ok(&r, &free));
    Pre {
        count: count(&nodes, &r),
        part: part_ok(&r, &free),
        canon: canon(&nodes, &r),
        nodes,
        reach: r,
        free,
    }
}

/// post-state read back from the real map into local arrays of M >= arena length slots
pub struct Post<const M: usize, const G: usize> {
    pub nodes: [Raw; M],
    pub len: usize,
    pub reach: [bool; M],
    pub free: Free<G>,
    pub count: usize,
}

pub fn post<const M: usize, const G: usize>(map: &PrefixMap<P, u8>) -> Post<M, G> {
    let (mut nodes, len) = readback::<M>(map);
    // slots >= len do not exist: make sure stale defaults cannot be referenced
    let fl = map.__verif_free();
    let mut free = Free::<G>::empty();
    free.len = fl.len();
    let mut i = 0;
    while i < G {
        if i < fl.len() {
            free.items[i] = fl[i];
        }
        i += 1;
    }
    let r = reach(&nodes);
    Post {
        nodes,
        len,
        reach: r,
        free,
        count: map.__verif_count(),
    }
}

/// structural post-conditions shared by all mutators
pub fn check_structure<S: Src, const A: u8, const N: usize, const F: usize, const M: usize, const G: usize>(
    s: &mut S,
    pre: &Pre<N, F>,
    map: &PrefixMap<P, u8>,
    keeps_canon: bool,
) {
    if A & (SHAPE | SLOTS) == 0 {
        return;
    }
    let po = &post::<M, G>(map);
    check!(s, po.len <= M && po.free.len <= G, "C15,C16:arena/free-list within the modelled size");
    // child pointers of reachable slots stay inside the arena
    let mut inb = true;
    let mut i = 0;
    while i < M {
        if i < po.len && po.reach[i] {
            if let Some(c) = po.nodes[i].2 {
                inb = inb && c < po.len;
            }
            if let Some(c) = po.nodes[i].3 {
                inb = inb && c < po.len;
            }
        }
        i += 1;
    }
    check!(s, inb, "INV,C15,C16:child pointer inside arena");
    if A & SHAPE != 0 {
        check!(s, wf(&po.nodes, &po.reach), "INV,C15:post-state well-formed");
        if keeps_canon && pre.canon {
            check!(s, canon(&po.nodes, &po.reach), "C15:post-state canonical");
        }
        check!(s, po.count == count(&po.nodes, &po.reach), "INV,C04,C15:counter equals number of reachable entries");
    }
    if A & SLOTS == 0 {
        return;
    }
    // FREE on the post-state
    let mut fok = true;
    let mut i = 0;
    while i < G {
        if i < po.free.len {
            let x = po.free.items[i];
            fok = fok && x < po.len && x != 0 && !po.reach[x];
            let mut j = 0;
            while j < i {
                fok = fok && po.free.items[j] != x;
                j += 1;
            }
        }
        i += 1;
    }
    check!(s, fok, "INV,C16:free list holds distinct unreachable slots");
    if pre.part {
        // every existing slot is reachable xor free
        let mut pok = true;
        let mut i = 0;
        while i < M {
            if i < po.len {
                pok = pok && (po.reach[i] != po.free.contains(i));
            }
            i += 1;
        }
        check!(s, pok, "C16:every slot is in the tree xor on the free list");
    }
    check!(s, po.len <= N || po.free.len == 0, "C16:arena grows only when the free list is empty");
}

/// abstract post-map at probe `q`: expected (stored representation, value)
pub fn check_probe<S: Src, const A: u8>(s: &mut S, map: &PrefixMap<P, u8>, q: &P, exp: Option<(P, u8)>) {
    if A & RET == 0 {
        return;
    }
    let got = map.get_key_value(q).map(|(p, v)| (*p, *v));
    check!(s, got.map(|x| x.1) == exp.map(|x| x.1), "C01:post-state lookup");
    check!(s, got.map(|x| x.0) == exp.map(|x| x.0), "C18:post-state stored representation");
}

fn pre_entry<const N: usize, const F: usize>(pre: &Pre<N, F>, q: &P) -> Option<(P, u8)> {
    lookup(&pre.nodes, &pre.reach, q).map(|i| (pre.nodes[i].0, pre.nodes[i].1.unwrap()))
}

fn covers_pre<S: Src, const N: usize, const F: usize>(s: &mut S, pre: &Pre<N, F>, p: &P) {
    if F > 0 {
        cover!(s, pre.free.len > 0, "free list non-empty (slot reuse)");
        cover!(s, !pre.part, "pre-state with a leaked slot");
    }
    cover!(s, pre.free.len == 0, "free list empty");
    cover!(s, !pre.canon, "non-canonical pre-state");
    cover!(s, p.1 == W, "full-length argument");
    cover!(s, p.1 == 0, "zero-length argument");
}

fn check_len<S: Src, const A: u8>(s: &mut S, map: &PrefixMap<P, u8>, exp: usize) {
    if A & LEN == 0 {
        return;
    }
    check!(s, map.len() == exp, "C04:len() equals the abstract entry count");
    check!(s, map.is_empty() == (exp == 0), "C04:is_empty() iff no entries");
}

/// insert(p, v)
pub fn insert<S: Src, const A: u8, const N: usize, const F: usize, const M: usize, const G: usize>(s: &mut S) {
    let pre = pre::<S, N, F>(s);
    let mut map = mk_map(&pre.nodes, &pre.free, pre.count, M, G);
    let p = any_p(s);
    let v = s.u8();
    let q = any_p(s);
    let old = map.insert(p, v);
    let exp_old = lookup_val(&pre.nodes, &pre.reach, &p);
    if A & RET != 0 {
        check!(s, old == exp_old, "C01:insert returns previous value");
    }
    check_len::<S, A>(s, &map, pre.count + if exp_old.is_none() { 1 } else { 0 });
    check_structure::<S, A, N, F, M, G>(s, &pre, &map, true);
    let exp = if same(&q, &p) { Some((p, v)) } else { pre_entry(&pre, &q) };
    check_probe::<S, A>(s, &map, &q, exp);
    covers_pre(s, &pre, &p);
    cover!(s, exp_old.is_some() && p.0 != pre.nodes[lookup(&pre.nodes, &pre.reach, &p).unwrap()].0 .0, "replace with different host bits");
    cover!(s, map.__verif_len() == N + 2, "new branch node and new leaf pushed");
    cover!(s, exp_old.is_none() && node_at(&pre.nodes, &pre.reach, &p).is_some(), "insert into value-less node");
    std::mem::forget(map);
}

/// remove(p)
pub fn remove<S: Src, const A: u8, const N: usize, const F: usize, const G: usize>(s: &mut S) {
    let pre = pre::<S, N, F>(s);
    let mut map = mk_map(&pre.nodes, &pre.free, pre.count, N, G);
    let p = any_p(s);
    let q = any_p(s);
    let old = map.remove(&p);
    let exp_old = lookup_val(&pre.nodes, &pre.reach, &p);
    if A & RET != 0 {
        check!(s, old == exp_old, "C01:remove returns removed value");
    }
    check_len::<S, A>(s, &map, pre.count - if exp_old.is_some() { 1 } else { 0 });
    check_structure::<S, A, N, F, N, G>(s, &pre, &map, true);
    let exp = if same(&q, &p) { None } else { pre_entry(&pre, &q) };
    check_probe::<S, A>(s, &map, &q, exp);
    if A & SLOTS != 0 {
        check!(s, map.__verif_len() == N, "C16:remove does not grow the arena");
    }
    covers_pre(s, &pre, &p);
    let at = lookup(&pre.nodes, &pre.reach, &p);
    cover!(s, at.is_some() && pre.nodes[at.unwrap()].2.is_none() && pre.nodes[at.unwrap()].3.is_none(), "remove a leaf");
    {
        cover!(s, N < 3 || (at.is_some() && pre.nodes[at.unwrap()].2.is_some() && pre.nodes[at.unwrap()].3.is_some()), "remove a node with two children");
    }
    {
        cover!(s, N < 4 || (at.is_some() && pre.canon && map.__verif_free().len() == pre.free.len + 2), "leaf removal collapses value-less parent with sibling");
    }
    std::mem::forget(map);
}

/// remove_keep_tree(p): contents change, shape does not
pub fn remove_keep_tree<S: Src, const A: u8, const N: usize, const F: usize>(s: &mut S) {
    let pre = pre::<S, N, F>(s);
    let mut map = mk_map(&pre.nodes, &pre.free, pre.count, N, F);
    let p = any_p(s);
    let q = any_p(s);
    let old = map.remove_keep_tree(&p);
    let exp_old = lookup_val(&pre.nodes, &pre.reach, &p);
    if A & RET != 0 {
        check!(s, old == exp_old, "C01:remove_keep_tree returns removed value");
    }
    check_len::<S, A>(s, &map, pre.count - if exp_old.is_some() { 1 } else { 0 });
    check_structure::<S, A, N, F, N, F>(s, &pre, &map, false);
    let exp = if same(&q, &p) { None } else { pre_entry(&pre, &q) };
    check_probe::<S, A>(s, &map, &q, exp);
    if A & SHAPE != 0 {
        // shape unchanged: prefixes and child pointers of every slot, free list
        let po = post::<N, F>(&map);
        let mut same_shape = po.len == N && po.free.len == pre.free.len;
        let mut i = 0;
        while i < N {
            same_shape = same_shape
                && po.nodes[i].0 == pre.nodes[i].0
                && po.nodes[i].2 == pre.nodes[i].2
                && po.nodes[i].3 == pre.nodes[i].3;
            i += 1;
        }
        check!(s, same_shape, "C15:remove_keep_tree leaves the shape unchanged");
    }
    covers_pre(s, &pre, &p);
    cover!(s, exp_old.is_some(), "key present");
    std::mem::forget(map);
}

/// remove_children(p)
pub fn remove_children<S: Src, const A: u8, const N: usize, const F: usize, const G: usize>(s: &mut S) {
    let pre = pre::<S, N, F>(s);
    let mut map = mk_map(&pre.nodes, &pre.free, pre.count, N, G);
    #[cfg(kani)]
    crate::stubs::allow_alloc(3, 8); // `vec![child]` work list of _do_remove_children
    let p = any_p(s);
    let q = any_p(s);
    map.remove_children(&p);
    let gone = covered_count(&pre.nodes, &pre.reach, &p);
    check_len::<S, A>(s, &map, pre.count - gone);
    let exp = if covers(&p, &q) { None } else { pre_entry(&pre, &q) };
    if A & RET != 0 {
        let got = map.get_key_value(&q).map(|(p, v)| (*p, *v));
        check!(s, got == exp, "C10,C01:remove_children removes exactly the covered entries");
    }
    if p.1 == 0 {
        // cheap (no read-back), so asserted in every group
        check!(s, map.__verif_len() == 1 && map.__verif_free().len() == 0, "C10,C16:zero-length selector leaves one slot and an empty free list");
    } else {
        check_structure::<S, A, N, F, N, G>(s, &pre, &map, false);
    }
    covers_pre(s, &pre, &p);
    cover!(s, gone >= 2, "two or more entries removed");
    cover!(s, gone >= 1 && node_at(&pre.nodes, &pre.reach, &p).is_none(), "selector on an edge (no node)");
    cover!(s, gone == 0 && p.1 > 0, "nothing covered");
    std::mem::forget(map);
}

/// clear()
pub fn clear<S: Src, const N: usize, const F: usize>(s: &mut S) {
    let pre = pre::<S, N, F>(s);
    let mut map = mk_map(&pre.nodes, &pre.free, pre.count, N, F);
    let q = any_p(s);
    map.clear();
    let po = post::<N, F>(&map);
    check!(s, map.len() == 0 && map.is_empty(), "C04:clear resets len");
    check!(s, map.get(&q).is_none(), "C01:clear removes everything");
    check!(s, po.len == 1 && po.free.len == 0, "C16:clear leaves one slot and an empty free list");
    check!(s, po.nodes[0] == ((0, 0), None, None, None), "C15:clear leaves the bare root");
    cover!(s, pre.count >= 2, "two or more entries before");
    std::mem::forget(map);
}

/// entry(p) followed by one Entry-level call; `OP` selects it:
/// 0 insert, 1 or_insert, 2 or_insert_with, 3 or_default, 4 and_modify+or_insert, 5 get_mut write
pub fn entry_top<S: Src, const A: u8, const OP: u8, const N: usize, const F: usize, const M: usize, const G: usize>(s: &mut S) {
    let pre = pre::<S, N, F>(s);
    let mut map = mk_map(&pre.nodes, &pre.free, pre.count, M, G);
    let p = any_p(s);
    let v = s.u8();
    let w = s.u8();
    let q = any_p(s);
    let pre_at = lookup(&pre.nodes, &pre.reach, &p);
    let old = pre_at.map(|i| (pre.nodes[i].0, pre.nodes[i].1.unwrap()));
    // expected entry stored at p afterwards
    let mut exp_p: Option<(P, u8)> = old;
    {
        let e = map.entry(p);
        if A & RET != 0 {
            check!(s, matches!(e, Entry::Occupied(_)) == old.is_some(), "C01:entry occupied iff key stored");
            check!(s, e.get().copied() == old.map(|x| x.1), "C01:Entry::get");
            check!(s, *e.key() == old.map(|x| x.0).unwrap_or(p), "C18:Entry::key is the stored representation (or the argument when vacant)");
        }
        match OP {
            0 => {
                let r = e.insert(v);
                if A & RET != 0 {
                    check!(s, r == old.map(|x| x.1), "C01:Entry::insert returns previous value");
                }
                exp_p = Some((p, v));
            }
            1 => {
                let r = e.or_insert(v);
                if A & RET != 0 {
                    check!(s, *r == old.map(|x| x.1).unwrap_or(v), "C01:or_insert returns resident value");
                }
                *r = w;
                exp_p = Some((old.map(|x| x.0).unwrap_or(p), w));
            }
            2 => {
                let mut called = false;
                let r = e.or_insert_with(|| {
                    called = true;
                    v
                });
                if A & RET != 0 {
                    check!(s, *r == old.map(|x| x.1).unwrap_or(v), "C01:or_insert_with returns resident value");
                }
                *r = w;
                if A & RET != 0 {
                    check!(s, called == old.is_none(), "C01:or_insert_with calls the closure only when vacant");
                }
                exp_p = Some((old.map(|x| x.0).unwrap_or(p), w));
            }
            3 => {
                let r = e.or_default();
                if A & RET != 0 {
                    check!(s, *r == old.map(|x| x.1).unwrap_or(0), "C01:or_default returns resident value");
                }
                exp_p = Some((old.map(|x| x.0).unwrap_or(p), old.map(|x| x.1).unwrap_or(0)));
            }
            4 => {
                let r = e.and_modify(|x| *x = x.wrapping_add(w)).or_insert(v);
                if A & RET != 0 {
                    check!(s, *r == old.map(|x| x.1.wrapping_add(w)).unwrap_or(v), "C01:and_modify.or_insert");
                }
                exp_p = Some((old.map(|x| x.0).unwrap_or(p), old.map(|x| x.1.wrapping_add(w)).unwrap_or(v)));
            }
            _ => {
                let mut e = e;
                if let Some(x) = e.get_mut() {
                    *x = w;
                    exp_p = Some((old.unwrap().0, w));
                }
            }
        }
    }
    check_len::<S, A>(s, &map, pre.count + if old.is_none() && exp_p.is_some() { 1 } else { 0 });
    check_structure::<S, A, N, F, M, G>(s, &pre, &map, true);
    let exp = if same(&q, &p) { exp_p } else { pre_entry(&pre, &q) };
    check_probe::<S, A>(s, &map, &q, exp);
    covers_pre(s, &pre, &p);
    cover!(s, old.is_some(), "occupied");
    cover!(s, old.is_none() && node_at(&pre.nodes, &pre.reach, &p).is_some(), "vacant entry on a value-less node");
    cover!(s, old.is_none() && node_at(&pre.nodes, &pre.reach, &p).is_none(), "vacant entry without a node");
    std::mem::forget(map);
}

/// entry(p), then a handle-level call on the OccupiedEntry / VacantEntry; `OP` selects it:
/// occupied: 0 insert, 1 remove, 2 get_mut write; vacant: 0 insert, 1 insert_with, 2 default
pub fn entry_handle<S: Src, const A: u8, const OP: u8, const N: usize, const F: usize, const M: usize, const G: usize>(s: &mut S) {
    let pre = pre::<S, N, F>(s);
    let mut map = mk_map(&pre.nodes, &pre.free, pre.count, M, G);
    let p = any_p(s);
    let v = s.u8();
    let w = s.u8();
    let q = any_p(s);
    let pre_at = lookup(&pre.nodes, &pre.reach, &p);
    let old = pre_at.map(|i| (pre.nodes[i].0, pre.nodes[i].1.unwrap()));
    let mut exp_p: Option<(P, u8)> = old;
    match map.entry(p) {
        Entry::Occupied(mut e) => {
            if A & RET != 0 {
                check!(s, old.is_some(), "C01:entry occupied iff key stored");
                check!(s, Some(*e.key()) == old.map(|x| x.0), "C18:OccupiedEntry::key is the stored representation");
                check!(s, Some(*e.get()) == old.map(|x| x.1), "C01:OccupiedEntry::get");
            }
            match OP {
                0 => {
                    let r = e.insert(v);
                    if A & RET != 0 {
                        check!(s, Some(r) == old.map(|x| x.1), "C01:OccupiedEntry::insert returns previous value");
                    }
                    exp_p = Some((p, v));
                }
                1 => {
                    let r = e.remove();
                    if A & RET != 0 {
                        check!(s, Some(r) == old.map(|x| x.1), "C01:OccupiedEntry::remove returns the value");
                    }
                    exp_p = None;
                }
                _ => {
                    *e.get_mut() = w;
                    exp_p = Some((old.unwrap().0, w));
                }
            }
        }
        Entry::Vacant(e) => {
            if A & RET != 0 {
                check!(s, old.is_none(), "C01:entry occupied iff key stored");
                check!(s, *e.key() == p, "C18:VacantEntry::key is the argument");
            }
            match OP {
                0 => {
                    let r = e.insert(v);
                    if A & RET != 0 {
                        check!(s, *r == v, "C01:VacantEntry::insert returns the resident value");
                    }
                    *r = w;
                    exp_p = Some((p, w));
                }
                1 => {
                    let r = e.insert_with(|| v);
                    if A & RET != 0 {
                        check!(s, *r == v, "C01:VacantEntry::insert_with returns the resident value");
                    }
                    exp_p = Some((p, v));
                }
                _ => {
                    let r = e.default();
                    if A & RET != 0 {
                        check!(s, *r == 0, "C01:VacantEntry::default returns the resident value");
                    }
                    exp_p = Some((p, 0));
                }
            }
        }
    }
    let exp_len = pre.count + if old.is_none() { 1 } else { 0 } - if old.is_some() && exp_p.is_none() { 1 } else { 0 };
    check_len::<S, A>(s, &map, exp_len);
    // OccupiedEntry::remove keeps the node (like remove_keep_tree): canonicity may be lost
    check_structure::<S, A, N, F, M, G>(s, &pre, &map, !(old.is_some() && OP == 1));
    let exp = if same(&q, &p) { exp_p } else { pre_entry(&pre, &q) };
    check_probe::<S, A>(s, &map, &q, exp);
    covers_pre(s, &pre, &p);
    cover!(s, old.is_some(), "occupied");
    cover!(s, old.is_none() && map.__verif_len() == N + 2, "vacant insertion with a new branch");
    std::mem::forget(map);
}

