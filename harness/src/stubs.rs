//! Checked cuts of `Vec` growth (DESIGN.md §2 lesson 2, §3.10). Only compiled under Kani.
#![cfg(kani)]

use std::alloc::{AllocError, Global, Layout};
use std::ptr::NonNull;

/// For harnesses whose vectors are pre-reserved through the hooks: growth must be unreachable. The
/// assertion is a *checked* assumption; if it fails the driver reports the harness as inconclusive.
pub fn grow_unreachable(
    _this: &Global,
    _ptr: NonNull<u8>,
    _old: Layout,
    _new: Layout,
    _zeroed: bool,
) -> Result<NonNull<[u8]>, AllocError> {
    kani::assert(false, "VERIF-BOUND: Vec growth reached although capacity was reserved");
    kani::assume(false);
    Err(AllocError)
}

/// Allocator model for code that genuinely grows small vectors: a fresh constant-size block that
/// holds the old bytes (over-provisioning is within the allocator contract).
pub fn grow_model(
    _this: &Global,
    ptr: NonNull<u8>,
    old: Layout,
    new: Layout,
    _zeroed: bool,
) -> Result<NonNull<[u8]>, AllocError> {
    const MAX: usize = 128;
    let fits = new.size() <= MAX && old.size() <= MAX && new.align() <= 8;
    kani::assert(fits, "VERIF-BOUND: Vec growth beyond the allocator model");
    kani::assume(fits);
    unsafe {
        let blk = std::alloc::alloc(Layout::from_size_align_unchecked(MAX, 8));
        std::ptr::copy_nonoverlapping(ptr.as_ptr(), blk, old.size());
        std::alloc::dealloc(ptr.as_ptr(), old);
        Ok(NonNull::slice_from_raw_parts(
            NonNull::new_unchecked(blk),
            new.size(),
        ))
    }
}

/// Sizes (in bytes) the current harness is allowed to allocate; written with constants at the
/// start of a harness (by `arena::mk_map` and friends) so that symex folds the reads.
pub static mut ALLOC_SIZES: [usize; 6] = [0; 6];

pub fn allow_alloc(slot: usize, bytes: usize) {
    unsafe {
        ALLOC_SIZES[slot] = bytes;
    }
}

/// Allocation model used together with the growth cut: every heap object has a *constant* size.
/// A request whose size symex can fold to one of the sizes announced by the harness is served
/// exactly; a request of any other size is a checked bound violation. Without this, an (infeasible)
/// path through `RawVecInner::finish_grow`'s `allocate` branch on which CBMC cannot fold the
/// capacity creates an object of symbolic size, and the array-theory post-processing explodes.
pub fn alloc_ladder(layout: Layout, _zeroed: bool) -> Result<NonNull<[u8]>, AllocError> {
    let size = layout.size();
    if size == 0 {
        return Ok(NonNull::slice_from_raw_parts(layout.dangling_ptr(), 0));
    }
    // hand-unrolled (no loop: the harness-wide unwind bound must not depend on this stub)
    macro_rules! slot {
        ($i:literal) => {
            let k = unsafe { ALLOC_SIZES[$i] };
            if k != 0 && size == k {
                let p = unsafe { std::alloc::alloc(Layout::from_size_align_unchecked(k, 8)) };
                return Ok(NonNull::slice_from_raw_parts(unsafe { NonNull::new_unchecked(p) }, k));
            }
        };
    }
    slot!(0);
    slot!(1);
    slot!(2);
    slot!(3);
    slot!(4);
    slot!(5);
    kani::assert(false, "VERIF-BOUND: allocation size not announced by the harness");
    kani::assume(false);
    Err(AllocError)
}
