//! Checked cuts of `Vec` growth (DESIGN.md §2 lesson 2, §3.10). Only compiled under Kani.
#![cfg(kani)]

use std::alloc::{AllocError, Global, Layout};
use std::ptr::NonNull;

/// For harnesses whose vectors are pre-reserved through the hooks: growth must be unreachable. The
/// assertion is a *checked* assumption; if it fails the driver reports the harness as inconclusive.
pub fn grow_unreachable(
    _this: &Global,
    _ptr: NonNull<u8>,
    _old: Layout,
    _new: Layout,
    _zeroed: bool,
) -> Result<NonNull<[u8]>, AllocError> {
    kani::assert(false, "VERIF-BOUND: Vec growth reached although capacity was reserved");
    kani::assume(false);
    Err(AllocError)
}

/// Allocator model for code that genuinely grows small vectors: a fresh constant-size block that
/// holds the old bytes (over-provisioning is within the allocator contract).
pub fn grow_model(
    _this: &Global,
    ptr: NonNull<u8>,
    old: Layout,
    new: Layout,
    _zeroed: bool,
) -> Result<NonNull<[u8]>, AllocError> {
    const MAX: usize = 128;
    let fits = new.size() <= MAX && old.size() <= MAX && new.align() <= 8;
    kani::assert(fits, "VERIF-BOUND: Vec growth beyond the allocator model");
    kani::assume(fits);
    unsafe {
        let blk = std::alloc::alloc(Layout::from_size_align_unchecked(MAX, 8));
        std::ptr::copy_nonoverlapping(ptr.as_ptr(), blk, old.size());
        std::alloc::dealloc(ptr.as_ptr(), old);
        Ok(NonNull::slice_from_raw_parts(
            NonNull::new_unchecked(blk),
            new.size(),
        ))
    }
}
