//! Checked cuts of `Vec` growth (DESIGN.md §2 lesson 2, §3.10). Only compiled under Kani.
#![cfg(kani)]

use std::alloc::{AllocError, Global, Layout};
use std::ptr::NonNull;

/// For harnesses whose vectors are pre-reserved through the hooks: growth must be unreachable. The
/// assertion is a *checked* assumption; if it fails the driver reports the harness as inconclusive.
pub fn grow_unreachable(
    _this: &Global,
    _ptr: NonNull<u8>,
    _old: Layout,
    _new: Layout,
    _zeroed: bool,
) -> Result<NonNull<[u8]>, AllocError> {
    kani::assert(false, "VERIF-BOUND: Vec growth reached although capacity was reserved");
    kani::assume(false);
    Err(AllocError)
}

/// (old size, new size) pairs of the growth steps the current harness admits, e.g. (24, 96): a
/// one-element index vector grows to capacity four. Written with constants at the start of a
/// harness; every branch of the model then allocates and copies a constant number of bytes (a
/// `memcpy` of symbolic length is encoded with unbounded arrays by CBMC).
pub static mut GROW_PAIRS: [(usize, usize); 4] = [(0, 0); 4];

pub fn allow_grow(slot: usize, old_bytes: usize, new_bytes: usize) {
    unsafe {
        GROW_PAIRS[slot] = (old_bytes, new_bytes);
    }
}

/// Allocator model for code that genuinely grows small vectors (the one- to three-element index
/// vectors of `next_indices*`, the `vec![0]` stacks of `iter()`, the arena of a map built from
/// `new()`): a fresh block of exactly the requested size that holds the old bytes; the old block
/// is released. Growth steps the harness did not announce are checked bound violations.
pub fn grow_model(
    _this: &Global,
    ptr: NonNull<u8>,
    old: Layout,
    new: Layout,
    _zeroed: bool,
) -> Result<NonNull<[u8]>, AllocError> {
    let os = old.size();
    let ns = new.size();
    macro_rules! pair {
        ($i:literal) => {
            let (o, n) = unsafe { GROW_PAIRS[$i] };
            if n != 0 && os == o && ns == n {
                unsafe {
                    let blk = std::alloc::alloc(Layout::from_size_align_unchecked(n, 8));
                    std::ptr::copy_nonoverlapping(ptr.as_ptr(), blk, o);
                    std::alloc::dealloc(ptr.as_ptr(), Layout::from_size_align_unchecked(o, 8));
                    return Ok(NonNull::slice_from_raw_parts(NonNull::new_unchecked(blk), n));
                }
            }
        };
    }
    pair!(0);
    pair!(1);
    pair!(2);
    pair!(3);
    kani::assert(false, "VERIF-BOUND: Vec growth step not announced by the harness (or capacity was reserved)");
    kani::assume(false);
    Err(AllocError)
}

/// Sizes (in bytes) the current harness is allowed to allocate; written with constants at the
/// start of a harness (by `arena::mk_map` and friends) so that symex folds the reads.
pub static mut ALLOC_SIZES: [usize; 10] = [0; 10];

pub fn allow_alloc(slot: usize, bytes: usize) {
    unsafe {
        ALLOC_SIZES[slot] = bytes;
    }
}

/// Allocation model used together with the growth cut: every heap object has a *constant* size.
/// A request whose size symex can fold to one of the sizes announced by the harness is served
/// exactly; a request of any other size is a checked bound violation. Without this, an (infeasible)
/// path through `RawVecInner::finish_grow`'s `allocate` branch on which CBMC cannot fold the
/// capacity creates an object of symbolic size, and the array-theory post-processing explodes.
pub fn alloc_ladder(layout: Layout, _zeroed: bool) -> Result<NonNull<[u8]>, AllocError> {
    let size = layout.size();
    if size == 0 {
        return Ok(NonNull::slice_from_raw_parts(layout.dangling_ptr(), 0));
    }
    // hand-unrolled (no loop: the harness-wide unwind bound must not depend on this stub)
    macro_rules! slot {
        ($i:literal) => {
            let k = unsafe { ALLOC_SIZES[$i] };
            if k != 0 && size == k {
                let p = unsafe { std::alloc::alloc(Layout::from_size_align_unchecked(k, 8)) };
                return Ok(NonNull::slice_from_raw_parts(unsafe { NonNull::new_unchecked(p) }, k));
            }
        };
    }
    slot!(0);
    slot!(1);
    slot!(2);
    slot!(3);
    slot!(4);
    slot!(5);
    slot!(6);
    slot!(7);
    slot!(8);
    slot!(9);
    kani::assert(false, "VERIF-BOUND: allocation size not announced by the harness");
    kani::assume(false);
    Err(AllocError)
}

/// `Vec::append_elements` (used by `Vec::extend(Vec<T>)`) copies with a `memcpy` of symbolic
/// length, which CBMC encodes with unbounded arrays. Same effect, element by element (the index
/// vectors of the set operations hold at most three entries).
pub unsafe fn append_elements_model<T, A: std::alloc::Allocator>(v: &mut Vec<T, A>, other: *const [T]) {
    let count = other.len();
    v.reserve(count);
    let mut i = 0;
    while i < count {
        unsafe {
            let x = std::ptr::read((other as *const T).add(i));
            let len = v.len();
            std::ptr::write(v.as_mut_ptr().add(len), x);
            v.set_len(len + 1);
        }
        i += 1;
    }
}

/// `Vec::insert` shifts the tail with a `memmove` of symbolic length (unbounded arrays in CBMC).
/// Same effect, element by element (`next_indices_first_*` insert into vectors of one or two entries).
pub fn insert_model<T, A: std::alloc::Allocator>(v: &mut Vec<T, A>, index: usize, element: T) {
    let len = v.len();
    assert!(index <= len, "insertion index out of bounds");
    if len == v.capacity() {
        v.reserve(1);
    }
    unsafe {
        let p = v.as_mut_ptr();
        let mut i = len;
        while i > index {
            std::ptr::write(p.add(i), std::ptr::read(p.add(i - 1)));
            i -= 1;
        }
        std::ptr::write(p.add(index), element);
        v.set_len(len + 1);
    }
}

/// release without bookkeeping (experiments / harnesses where deallocation is not the subject)
pub fn dealloc_noop(_ptr: NonNull<u8>, _layout: Layout) {}
