//! Single-map iterators (C03, C10, C13, C14): whole traversals from the real constructors and
//! Init/Step obligations on injected stacks (DESIGN.md §3.8).

use crate::arena::*;
use crate::obs::pre;
use crate::oracle::*;
use crate::spec::*;
use crate::src::Src;
use prefix_trie::PrefixMap;

#[inline(always)]
fn announce(n: usize) {
    #[cfg(kani)]
    {
        crate::stubs::allow_alloc(3, 8); // `vec![0]` / `vec![idx]` built by the constructors
        crate::stubs::allow_alloc(4, 8 * (n + 1)); // re-homed / injected stack
    }
}

/// bookkeeping shared by the traversal harnesses
pub struct Walk<const N: usize> {
    /// a `None` has been seen: every later item violates fusedness / means a premature `None`
    pub ended: bool,
    pub steps: usize,
    pub last: Option<P>,
    pub seen_q: usize,
    pub slots: [Option<usize>; N],
}

impl<const N: usize> Walk<N> {
    pub fn new() -> Self {
        Self {
            ended: false,
            steps: 0,
            last: None,
            seen_q: 0,
            slots: [None; N],
        }
    }
    /// account for one yielded item `(p, v)`; `sel(i)`: slot i belongs to the expected result set
    pub fn item<S: Src>(&mut self, s: &mut S, nodes: &[Raw; N], r: &[bool; N], p: &P, v: u8, q: &P) {
        check!(s, !self.ended, "C03,C10:no item after the iterator returned None (no premature None, fused)");
        let at = lookup(nodes, r, p);
        check!(s, at.is_some() && nodes[at.unwrap_or(0)].0 == *p && nodes[at.unwrap_or(0)].1 == Some(v), "C03,C18:yielded item is a stored entry (stored bytes, current value)");
        if let Some(lp) = self.last {
            check!(s, lex_lt(&lp, p), "C03:items ascend by (network address, length)");
        }
        self.last = Some(*p);
        if same(p, q) {
            self.seen_q += 1;
        }
        if self.steps < N {
            self.slots[self.steps] = at;
        }
        self.steps += 1;
    }
}

/// C03: full traversal through the real constructor; KIND 0 iter(), 1 iter_mut() (+ writes, C13),
/// 2 into_iter(), 3 (&map).into_iter() via keys()/values() in lockstep
pub fn whole<S: Src, const KIND: u8, const N: usize>(s: &mut S) {
    let (nodes, r) = pre::<S, N>(s);
    let mut map = mk_map_simple(&nodes, &r);
    announce(N);
    let q = any_p(s);
    let total = count(&nodes, &r);
    let mut w = Walk::<N>::new();
    match KIND {
        0 => {
            let mut it = map.iter();
            it.__verif_rehome(N + 1);
            let mut k = 0;
            while k < N {
                if let Some((p, v)) = { let x = it.next(); if x.is_none() { w.ended = true; } x } {
                    w.item(s, &nodes, &r, p, *v, &q);
                }
                k += 1;
            }
            check!(s, it.next().is_none() && it.next().is_none(), "C03:iterator is exhausted after all entries and stays exhausted");
            std::mem::forget(it);
        }
        1 => {
            let mut refs: [Option<&mut u8>; N] = [const { None }; N];
            let mut addrs: [*const u8; N] = [std::ptr::null(); N];
            {
                let mut it = map.iter_mut();
                it.__verif_rehome(N + 1);
                let mut k = 0;
                while k < N {
                    if let Some((p, v)) = { let x = it.next(); if x.is_none() { w.ended = true; } x } {
                        w.item(s, &nodes, &r, p, *v, &q);
                        addrs[k] = v as *mut u8 as *const u8;
                        refs[k] = Some(v);
                    }
                    k += 1;
                }
                check!(s, it.next().is_none() && it.next().is_none(), "C03:iterator is exhausted after all entries and stays exhausted");
                std::mem::forget(it);
            }
            // all references are still alive: write a distinct value through each (C13)
            let base = s.u8();
            let mut k = 0;
            while k < N {
                if let Some(v) = refs[k].take() {
                    *v = base.wrapping_add(k as u8);
                }
                k += 1;
            }
            let mut k = 0;
            while k < N {
                if let Some(i) = w.slots[k] {
                    check!(s, addrs[k] == map.__verif_value_ptr(i), "C13,C14:iter_mut hands out the value slot of the yielded entry");
                    let mut j = 0;
                    while j < k {
                        check!(s, addrs[j] != addrs[k], "C14:references handed out by one traversal are pairwise distinct");
                        j += 1;
                    }
                }
                k += 1;
            }
            // every entry now holds the value written through its reference; nothing else changed
            let z = s.idx(N);
            let (post, len) = readback::<N>(&map);
            let mut exp = nodes[z];
            let mut k = 0;
            while k < N {
                if w.slots[k] == Some(z) {
                    exp.1 = Some(base.wrapping_add(k as u8));
                }
                k += 1;
            }
            check!(s, len == N && post[z] == exp, "C13:writes through iter_mut land exactly on the yielded entries");
        }
        2 => {
            announce(N);
            let m2 = mk_map_simple(&nodes, &r);
            let mut it = m2.into_iter();
            it.__verif_rehome(N + 1);
            let mut k = 0;
            while k < N {
                if let Some((p, v)) = { let x = it.next(); if x.is_none() { w.ended = true; } x } {
                    w.item(s, &nodes, &r, &p, v, &q);
                }
                k += 1;
            }
            check!(s, it.next().is_none() && it.next().is_none(), "C03:iterator is exhausted after all entries and stays exhausted");
            std::mem::forget(it);
        }
        _ => {
            // keys() / values() / (&map).into_iter() in lockstep with a clone taken half-way.
            // (real stacks: they grow through the allocator model; clones allocate len * 8 bytes)
            #[cfg(kani)]
            {
                crate::stubs::allow_alloc(5, 16);
                crate::stubs::allow_alloc(6, 24);
                crate::stubs::allow_alloc(7, 32);
                crate::stubs::allow_grow(0, 8, 32);
                crate::stubs::allow_grow(1, 32, 64);
            }
            let mut it = (&map).into_iter();
            let mut ik = map.keys();
            let mut iv = map.values();
            let mut k = 0;
            while k <= N {
                let a = it.next().map(|(p, v)| (*p, *v));
                let b = ik.next().copied();
                let c = iv.next().copied();
                check!(s, a.map(|x| x.0) == b, "C03:keys() is the key projection of iter()");
                check!(s, a.map(|x| x.1) == c, "C03:values() is the value projection of iter()");
                if let Some((p, v)) = a {
                    w.item(s, &nodes, &r, &p, v, &q);
                }
                if k == 0 {
                    let mut cl = it.clone();
                    let x = cl.next().map(|(p, v)| (*p, *v));
                    let mut cl2 = it.clone();
                    let y = cl2.next().map(|(p, v)| (*p, *v));
                    check!(s, x == y, "C03:a cloned iterator continues like the original");
                    std::mem::forget(cl);
                    std::mem::forget(cl2);
                }
                k += 1;
            }
            std::mem::forget(it);
            std::mem::forget(ik);
            std::mem::forget(iv);
        }
    }
    check!(s, w.steps == total, "C03:traversal yields exactly as many items as there are entries");
    check!(s, w.seen_q == if lookup(&nodes, &r, &q).is_some() { 1 } else { 0 }, "C03:every entry exactly once and nothing else");
    if KIND != 1 {
        check!(s, map.len() == total, "C04:len() equals the number of yielded entries");
    }
    cover!(s, total == N, "every slot holds an entry");
    cover!(s, total == 0, "empty map");
    cover!(s, total >= 1 && entry(&nodes, &r, 0), "zero-length entry stored");
    cover!(s, N < 3 || (nodes[0].2.is_some() && nodes[0].3.is_some() && total >= 2), "root with both branches");
    cover!(s, N < 3 || (total >= 1 && !canon(&nodes, &r)), "value-less leftover node");
    std::mem::forget(map);
}


/// C03 (projection wrappers) against iter() of the same arena, item by item (iter() itself is checked
/// against the entry oracle by `whole` on arenas of three slots, which include these shapes). KIND 0: keys() / values() /
/// (&map).into_iter() / Keys::clone taken after the first item; KIND 1: values_mut() / into_keys() /
/// into_values(), the owned ones on maps whose entry counter is *arbitrary* (iteration must not
/// depend on it); KIND 2: set iter() / (&set).into_iter() / set.into_iter().
/// N = 2: a root with at most one child never grows the `vec![0]` stack (pop one, push at most
/// one), so the real constructors run without any allocator model.
pub fn proj<S: Src, const KIND: u8, const N: usize>(s: &mut S) {
    let (nodes, r) = pre::<S, N>(s);
    let mut map = mk_map_simple(&nodes, &r);
    announce(N);
    let total = count(&nodes, &r);
    let mut steps = 0;
    let mut low_cnt = KIND != 1;
    let mut seq: [Option<(P, u8)>; N] = [None; N];
    {
        let mut it = map.iter();
        let mut k = 0;
        while k <= N {
            if let Some((p, v)) = it.next().map(|(p, v)| (*p, *v)) {
                steps += 1;
                if k < N {
                    seq[k] = Some((p, v));
                }
            }
            k += 1;
        }
        std::mem::forget(it);
    }
    check!(s, steps == total, "C03:traversal yields exactly as many items as there are entries");
    match KIND {
        0 => {
            let mut ir = (&map).into_iter();
            let mut ik = map.keys();
            let mut iv = map.values();
            let mut cl = ik.clone();
            let mut k = 0;
            while k <= N {
                let e = if k < N { seq[k] } else { None };
                let a2 = ir.next().map(|(p, v)| (*p, *v));
                let b = ik.next().copied();
                let c = iv.next().copied();
                check!(s, a2 == e, "C03:(&map).into_iter() yields what iter() yields");
                check!(s, b == e.map(|x| x.0), "C03:keys() is the key projection of iter()");
                check!(s, c == e.map(|x| x.1), "C03:values() is the value projection of iter()");
                if k >= 1 {
                    check!(s, cl.next().copied() == b, "C03:a cloned iterator continues like the original");
                }
                if k == 0 {
                    // clone taken after the first item: it must continue from here, not from the start
                    std::mem::forget(std::mem::replace(&mut cl, ik.clone()));
                }
                k += 1;
            }
            std::mem::forget((ir, ik, iv, cl));
        }
        1 => {
            {
                let mut im = map.values_mut();
                let mut k = 0;
                while k <= N {
                    let x = im.next().map(|v| *v);
                    check!(s, x == if k < N { seq[k].map(|e| e.1) } else { None }, "C03,C13:values_mut() is the value projection of iter()");
                    k += 1;
                }
                std::mem::forget(im);
            }
            let c1 = s.idx(N + 2);
            let c2 = s.idx(N + 2);
            let mut jk = mk_map::<N, 0>(&nodes, &Free::<0>::empty(), c1, N, 0).into_keys();
            let mut jv = mk_map::<N, 0>(&nodes, &Free::<0>::empty(), c2, N, 0).into_values();
            let mut k = 0;
            while k <= N {
                let e = if k < N { seq[k] } else { None };
                check!(s, jk.next() == e.map(|e| e.0), "C03:into_keys() is the key projection of iter()");
                check!(s, jv.next() == e.map(|e| e.1), "C03:into_values() is the value projection of iter()");
                k += 1;
            }
            low_cnt = c1 < total && c2 < total;
            std::mem::forget((jk, jv));
        }
        _ => {
            type RawU = (P, Option<()>, Option<usize>, Option<usize>);
            #[cfg(kani)]
            {
                crate::stubs::allow_alloc(5, N * std::mem::size_of::<RawU>());
            }
            let mk = |nodes: &[Raw; N]| {
                let mut v: Vec<RawU> = Vec::with_capacity(N);
                let mut i = 0;
                while i < N {
                    v.push((nodes[i].0, nodes[i].1.map(|_| ()), nodes[i].2, nodes[i].3));
                    i += 1;
                }
                prefix_trie::PrefixSet::__verif_from_map(PrefixMap::__verif_from_raw(v, &[], 0, total, N, 0))
            };
            let set = mk(&nodes);
            let mut si = set.iter();
            let mut sr = (&set).into_iter();
            let mut so = mk(&nodes).into_iter();
            let mut k = 0;
            while k <= N {
                let e = if k < N { seq[k].map(|e| e.0) } else { None };
                check!(s, si.next().copied() == e, "C03:set iter() yields the keys of the map iterator");
                check!(s, sr.next().copied() == e, "C03:(&set).into_iter() yields the keys of the map iterator");
                check!(s, so.next() == e, "C03:set.into_iter() yields the keys of the map iterator");
                k += 1;
            }
            std::mem::forget((si, sr, so));
            std::mem::forget(set);
        }
    }
    cover!(s, low_cnt, "entry counter below the number of entries");
    cover!(s, total == N, "every slot holds an entry");
    cover!(s, total == 0, "empty map");
    cover!(s, total == 1 && !entry(&nodes, &r, 0), "value-less root above one entry");
    std::mem::forget(map);
}

/// C10: children / children_mut / into_children yield exactly the covered entries, in order
pub fn children<S: Src, const KIND: u8, const N: usize>(s: &mut S) {
    let (nodes, r) = pre::<S, N>(s);
    let mut map = mk_map_simple(&nodes, &r);
    announce(N);
    let sel = any_p(s);
    let q = any_p(s);
    let total = covered_count(&nodes, &r, &sel);
    let mut w = Walk::<N>::new();
    match KIND {
        0 => {
            let mut it = map.children(&sel);
            it.__verif_rehome(N + 1);
            let mut k = 0;
            while k < N {
                if let Some((p, v)) = { let x = it.next(); if x.is_none() { w.ended = true; } x } {
                    check!(s, covers(&sel, p), "C10:children item is covered by the selector");
                    w.item(s, &nodes, &r, p, *v, &q);
                }
                k += 1;
            }
            check!(s, it.next().is_none(), "C10:children is exhausted after the covered entries");
            std::mem::forget(it);
        }
        1 => {
            let mut it = map.children_mut(&sel);
            it.__verif_rehome(N + 1);
            let wv = s.u8();
            let mut k = 0;
            while k < N {
                if let Some((p, v)) = { let x = it.next(); if x.is_none() { w.ended = true; } x } {
                    check!(s, covers(&sel, p), "C10,C13:children_mut item is covered by the selector");
                    w.item(s, &nodes, &r, p, *v, &q);
                    *v = wv;
                }
                k += 1;
            }
            check!(s, it.next().is_none(), "C10:children_mut is exhausted after the covered entries");
            std::mem::forget(it);
            let got = map.get_key_value(&q).map(|(p, v)| (*p, *v));
            let exp = lookup(&nodes, &r, &q).map(|i| (nodes[i].0, if covers(&sel, &nodes[i].0) { wv } else { nodes[i].1.unwrap() }));
            check!(s, got == exp, "C13:writes through children_mut land exactly on the covered entries");
        }
        _ => {
            announce(N);
            let m2 = mk_map_simple(&nodes, &r);
            let mut it = m2.into_children(&sel);
            it.__verif_rehome(N + 1);
            let mut k = 0;
            while k < N {
                if let Some((p, v)) = { let x = it.next(); if x.is_none() { w.ended = true; } x } {
                    check!(s, covers(&sel, &p), "C10:into_children item is covered by the selector");
                    w.item(s, &nodes, &r, &p, v, &q);
                }
                k += 1;
            }
            check!(s, it.next().is_none(), "C10:into_children is exhausted after the covered entries");
            std::mem::forget(it);
        }
    }
    check!(s, w.steps == total, "C10:children yields as many items as there are covered entries");
    let qin = lookup(&nodes, &r, &q).is_some() && covers(&sel, &q);
    check!(s, w.seen_q == if qin { 1 } else { 0 }, "C10:every covered entry exactly once, nothing else");
    cover!(s, total >= 2, "two or more covered entries");
    cover!(s, total >= 1 && node_at(&nodes, &r, &sel).is_none(), "selector on an edge (no node)");
    cover!(s, total == 0 && sel.1 > 0, "nothing covered");
    cover!(s, sel.1 == 0, "zero-length selector");
    cover!(s, total >= 1 && sel.0 != mask(&sel), "selector with host bits");
    std::mem::forget(map);
}

/// slot whose stored prefix lives at address `p`
fn slot_of<const N: usize>(map: &PrefixMap<P, u8>, p: *const P) -> Option<usize> {
    let mut r = None;
    let mut i = 0;
    while i < N {
        if map.__verif_prefix_ptr(i) == p {
            r = Some(i);
        }
        i += 1;
    }
    r
}

/// StackInv for the single-map iterators: entries reachable, subtrees pairwise disjoint, and every
/// entry nearer to the top precedes (lexicographically) the entries below it.
pub fn stack_inv<const N: usize, const K: usize>(nodes: &[Raw; N], r: &[bool; N], sub: &[[bool; N]; N], st: &[usize; K], len: usize) -> bool {
    let mut ok = len <= K;
    let mut a = 0;
    while a < K {
        if a < len {
            ok = ok && st[a] < N && r[st[a]];
            let mut b = 0;
            while b < a {
                // b is below a: subtree(a) entirely before subtree(b), disjoint
                ok = ok && !sub[st[a]][st[b]] && !sub[st[b]][st[a]];
                ok = ok && lex_lt(&nodes[st[a]].0, &nodes[st[b]].0) && disjoint(&nodes[st[a]].0, &nodes[st[b]].0);
                b += 1;
            }
        }
        a += 1;
    }
    ok
}

fn in_rem<const N: usize, const K: usize>(sub: &[[bool; N]; N], st: &[usize; K], len: usize, z: usize) -> bool {
    let mut r = false;
    let mut a = 0;
    while a < K {
        if a < len && sub[st[a]][z] {
            r = true;
        }
        a += 1;
    }
    r
}

/// C03 Step: one `next()` from an arbitrary stack satisfying StackInv (K entries at most before,
/// K+1 after). KIND 0 Iter, 1 IterMut.
pub fn step<S: Src, const KIND: u8, const N: usize, const K: usize, const K1: usize>(s: &mut S) {
    let (nodes, r) = pre::<S, N>(s);
    let sub = subtree(&nodes);
    let mut st = [0usize; K];
    let mut i = 0;
    while i < K {
        st[i] = s.idx(N);
        i += 1;
    }
    let len = s.idx(K + 1);
    s.assume(stack_inv(&nodes, &r, &sub, &st, len));
    let mut map = mk_map_simple(&nodes, &r);
    announce(K1);
    let mut stack: Vec<usize> = Vec::with_capacity(K1 + 1);
    let mut i = 0;
    while i < K {
        if i < len {
            stack.push(st[i]);
        }
        i += 1;
    }
    let z = s.idx(N);
    let z_pre = entry(&nodes, &r, z) && in_rem(&sub, &st, len, z);
    let mut post = [0usize; K1];
    let mut plen = 0;
    let got: Option<(*const P, u8, *const u8)>;
    if KIND == 0 {
        let mut it = map.__verif_iter(stack);
        got = it.next().map(|(p, v)| (p as *const P, *v, v as *const u8));
        let ps = it.__verif_stack();
        plen = ps.len();
        let mut i = 0;
        while i < K1 {
            if i < ps.len() {
                post[i] = ps[i];
            }
            i += 1;
        }
        std::mem::forget(it);
    } else {
        let mut it = map.__verif_iter_mut(stack);
        got = it.next().map(|(p, v)| (p as *const P, *v, v as *mut u8 as *const u8));
        let ps = it.__verif_stack();
        plen = ps.len();
        let mut i = 0;
        while i < K1 {
            if i < ps.len() {
                post[i] = ps[i];
            }
            i += 1;
        }
        std::mem::forget(it);
    }
    check!(s, plen <= K1, "C03:stack stays within the modelled size");
    match got {
        None => {
            check!(s, !z_pre, "C03:next() returns None only when no entry remains");
            check!(s, plen == 0, "C03:an exhausted iterator has an empty stack (stays exhausted)");
        }
        Some((pp, v, vp)) => {
            let at = slot_of::<N>(&map, pp);
            check!(s, at.is_some(), "C03:yielded prefix is the stored prefix of a node");
            let a = at.unwrap_or(0);
            check!(s, entry(&nodes, &r, a) && in_rem(&sub, &st, len, a) && nodes[a].1 == Some(v), "C03:yielded item is a remaining entry with its value");
            check!(s, vp == map.__verif_value_ptr(a), "C13,C14:yielded value reference is the value slot of that node");
            if z_pre {
                check!(s, !lex_lt(&nodes[z].0, &nodes[a].0), "C03:yielded item is the least remaining entry");
            }
            check!(s, stack_inv(&nodes, &r, &sub, &post, plen), "C03:stack invariant preserved");
            let z_post = entry(&nodes, &r, z) && in_rem(&sub, &post, plen, z);
            check!(s, z_post == (z_pre && z != a), "C03,C14:remaining entries = previous ones minus the yielded one");
        }
    }
    cover!(s, got.is_some() && len == K, "step from a full stack");
    cover!(s, got.is_none() && len > 0, "only value-less nodes remained");
    cover!(s, got.is_some() && plen == len + 1, "stack grew");
    std::mem::forget(map);
}

/// C10 Init: the start stack of children / children_mut / into_children is empty or holds the one
/// node whose subtree is exactly the set of entries covered by the selector (with C03 Step this
/// gives the traversal clause).
pub fn children_init<S: Src, const KIND: u8, const N: usize>(s: &mut S) {
    let (nodes, r) = pre::<S, N>(s);
    let sub = subtree(&nodes);
    let mut map = mk_map_simple(&nodes, &r);
    announce(N);
    let sel = any_p(s);
    let z = s.idx(N);
    let mut st = [0usize; 2];
    let mut len = 0;
    macro_rules! grab {
        ($it:expr) => {{
            let ps = $it.__verif_stack();
            len = ps.len();
            if len >= 1 {
                st[0] = ps[0];
            }
            if len >= 2 {
                st[1] = ps[1];
            }
            std::mem::forget($it);
        }};
    }
    match KIND {
        0 => {
            let it = map.children(&sel);
            grab!(it);
        }
        1 => {
            let it = map.children_mut(&sel);
            grab!(it);
        }
        _ => {
            announce(N);
            let m2 = mk_map_simple(&nodes, &r);
            let it = m2.into_children(&sel);
            grab!(it);
        }
    }
    check!(s, len <= 1, "C10:children starts from at most one sub-tree");
    if len == 1 {
        check!(s, st[0] < N && r[st[0]], "C10:children starts at a node of the tree");
    }
    if entry(&nodes, &r, z) {
        let inside = len == 1 && st[0] < N && sub[st[0]][z];
        check!(s, inside == covers(&sel, &nodes[z].0), "C10:the start sub-tree holds exactly the entries covered by the selector");
    }
    cover!(s, len == 1 && node_at(&nodes, &r, &sel).is_none(), "selector on an edge (no node)");
    cover!(s, len == 1 && node_at(&nodes, &r, &sel).is_some(), "selector is a node");
    cover!(s, len == 0, "nothing covered");
    cover!(s, sel.1 == 0, "zero-length selector");
    cover!(s, len == 1 && sel.0 != mask(&sel), "selector with host bits");
    std::mem::forget(map);
}
