//! Symbolic arena states and the invariant ladder WF / FREE / CNT / PART / CANON, evaluated on a
//! harness-local array (never on the heap copy the code under test works on).

use crate::spec::*;
use crate::src::Src;
use prefix_trie::PrefixMap;

/// (stored prefix incl. host bits, value, left child, right child)
pub type Raw = (P, Option<u8>, Option<usize>, Option<usize>);
pub const EMPTY: Raw = ((0, 0), None, None, None);

pub fn any_raw<S: Src, const N: usize>(s: &mut S) -> Raw {
    let p = any_p(s);
    let v = s.opt_u8();
    let l = s.opt_idx(N);
    let r = s.opt_idx(N);
    (p, v, l, r)
}

pub fn any_nodes<S: Src, const N: usize>(s: &mut S) -> [Raw; N] {
    let mut a = [EMPTY; N];
    let mut i = 0;
    while i < N {
        a[i] = any_raw::<S, N>(s);
        i += 1;
    }
    a
}

/// slots reachable from the root (slot 0) by child pointers
pub fn reach<const N: usize>(nodes: &[Raw; N]) -> [bool; N] {
    let mut reach = [false; N];
    reach[0] = true;
    let mut round = 0;
    while round + 1 < N {
        let mut i = 0;
        while i < N {
            if reach[i] {
                if let Some(c) = nodes[i].2 {
                    if c < N {
                        reach[c] = true;
                    }
                }
                if let Some(c) = nodes[i].3 {
                    if c < N {
                        reach[c] = true;
                    }
                }
            }
            i += 1;
        }
        round += 1;
    }
    reach
}

/// WF: root has length 0; every child of a reachable slot is non-root, strictly longer, covered
/// by its parent and on the side selected by the bit following the parent's prefix; no slot has two
/// reachable parents. Unreachable slots are unconstrained.
pub fn wf<const N: usize>(nodes: &[Raw; N], reach: &[bool; N]) -> bool {
    let mut ok = nodes[0].0 .1 == 0;
    let mut refs = [0u8; N];
    let mut i = 0;
    while i < N {
        if reach[i] {
            let p = &nodes[i].0;
            if let Some(c) = nodes[i].2 {
                if c < N {
                    let cp = &nodes[c].0;
                    ok = ok && c != 0 && cp.1 > p.1 && cp.1 <= W && covers(p, cp) && !bit(cp, p.1);
                    refs[c] += 1;
                } else {
                    ok = false;
                }
            }
            if let Some(c) = nodes[i].3 {
                if c < N {
                    let cp = &nodes[c].0;
                    ok = ok && c != 0 && cp.1 > p.1 && cp.1 <= W && covers(p, cp) && bit(cp, p.1);
                    refs[c] += 1;
                } else {
                    ok = false;
                }
            }
        }
        i += 1;
    }
    let mut i = 0;
    while i < N {
        ok = ok && refs[i] <= 1;
        i += 1;
    }
    ok
}

/// CANON: every reachable value-less slot other than the root has two children
pub fn canon<const N: usize>(nodes: &[Raw; N], reach: &[bool; N]) -> bool {
    let mut ok = true;
    let mut i = 1;
    while i < N {
        if reach[i] && nodes[i].1.is_none() {
            ok = ok && nodes[i].2.is_some() && nodes[i].3.is_some();
        }
        i += 1;
    }
    ok
}

/// number of reachable valued slots
pub fn count<const N: usize>(nodes: &[Raw; N], reach: &[bool; N]) -> usize {
    let mut n = 0;
    let mut i = 0;
    while i < N {
        if reach[i] && nodes[i].1.is_some() {
            n += 1;
        }
        i += 1;
    }
    n
}

/// `sub[i][j]`: slot j lies in the subtree rooted at slot i (only meaningful for reachable i)
pub fn subtree<const N: usize>(nodes: &[Raw; N]) -> [[bool; N]; N] {
    let mut sub = [[false; N]; N];
    let mut i = 0;
    while i < N {
        sub[i][i] = true;
        i += 1;
    }
    let mut round = 0;
    while round + 1 < N {
        let mut i = 0;
        while i < N {
            if let Some(c) = nodes[i].2 {
                let mut j = 0;
                while j < N {
                    if sub[c][j] {
                        sub[i][j] = true;
                    }
                    j += 1;
                }
            }
            if let Some(c) = nodes[i].3 {
                let mut j = 0;
                while j < N {
                    if sub[c][j] {
                        sub[i][j] = true;
                    }
                    j += 1;
                }
            }
            i += 1;
        }
        round += 1;
    }
    sub
}

/// a free list: `len <= F` entries of `items`
#[derive(Clone, Copy)]
pub struct Free<const F: usize> {
    pub items: [usize; F],
    pub len: usize,
}

impl<const F: usize> Free<F> {
    pub fn empty() -> Self {
        Self {
            items: [0; F],
            len: 0,
        }
    }
    pub fn contains(&self, x: usize) -> bool {
        let mut i = 0;
        let mut r = false;
        while i < F {
            if i < self.len && self.items[i] == x {
                r = true;
            }
            i += 1;
        }
        r
    }
}

pub fn any_free<S: Src, const N: usize, const F: usize>(s: &mut S) -> Free<F> {
    let mut items = [0usize; F];
    let mut i = 0;
    while i < F {
        items[i] = s.idx(N);
        i += 1;
    }
    let len = s.idx(F + 1);
    Free { items, len }
}

/// FREE: entries are in bounds, non-zero, pairwise distinct and unreachable
pub fn free_ok<const N: usize, const F: usize>(reach: &[bool; N], f: &Free<F>) -> bool {
    let mut ok = f.len <= F;
    let mut i = 0;
    while i < F {
        if i < f.len {
            let x = f.items[i];
            ok = ok && x < N && x != 0 && !reach[x];
            let mut j = 0;
            while j < i {
                ok = ok && f.items[j] != x;
                j += 1;
            }
        }
        i += 1;
    }
    ok
}

/// PART: every slot is reachable xor on the free list (given FREE)
pub fn part_ok<const N: usize, const F: usize>(reach: &[bool; N], f: &Free<F>) -> bool {
    let mut ok = true;
    let mut i = 0;
    while i < N {
        ok = ok && (reach[i] != f.contains(i));
        i += 1;
    }
    ok
}

/// build the real map from the raw parts through the injection hook; arena capacity `cap`, free
/// list capacity `fcap` are reserved so that no `push` inside the code under test has to grow.
pub fn mk_map<const N: usize, const F: usize>(
    nodes: &[Raw; N],
    free: &Free<F>,
    count: usize,
    cap: usize,
    fcap: usize,
) -> PrefixMap<P, u8> {
    #[cfg(kani)]
    {
        crate::stubs::allow_alloc(0, N * std::mem::size_of::<Raw>());
        crate::stubs::allow_alloc(1, cap * 40);
        crate::stubs::allow_alloc(2, fcap * 8);
    }
    let mut v: Vec<Raw> = Vec::with_capacity(N);
    let mut i = 0;
    while i < N {
        v.push(nodes[i]);
        i += 1;
    }
    let mut fl = [0usize; F];
    let mut i = 0;
    while i < F {
        fl[i] = free.items[i];
        i += 1;
    }
    PrefixMap::__verif_from_raw(v, &fl, free.len, count, cap, fcap)
}

/// map with empty free list and consistent counter
pub fn mk_map_simple<const N: usize>(nodes: &[Raw; N], reach: &[bool; N]) -> PrefixMap<P, u8> {
    mk_map::<N, 0>(nodes, &Free::<0>::empty(), count(nodes, reach), N, 0)
}

/// read the arena back into a local array of `M >= len` slots
pub fn readback<const M: usize>(map: &PrefixMap<P, u8>) -> ([Raw; M], usize) {
    let mut a = [EMPTY; M];
    let n = map.__verif_len();
    let mut i = 0;
    while i < M {
        if i < n {
            let (p, v, l, r) = map.__verif_node(i);
            a[i] = (*p, v.copied(), l, r);
        }
        i += 1;
    }
    (a, n)
}
