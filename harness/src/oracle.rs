//! Abstract map of an arena: `{ (network, len) -> (stored representation, value) | slot reachable and
//! valued }`, evaluated by bounded scans over the harness-local array.

use crate::arena::*;
use crate::spec::*;

/// is slot `i` an entry (reachable, valued)
#[inline(always)]
pub fn entry<const N: usize>(nodes: &[Raw; N], reach: &[bool; N], i: usize) -> bool {
    reach[i] && nodes[i].1.is_some()
}

/// slot storing key `q`, if any (WF guarantees at most one)
pub fn lookup<const N: usize>(nodes: &[Raw; N], reach: &[bool; N], q: &P) -> Option<usize> {
    let mut r = None;
    let mut i = 0;
    while i < N {
        if entry(nodes, reach, i) && same(&nodes[i].0, q) {
            r = Some(i);
        }
        i += 1;
    }
    r
}

pub fn lookup_val<const N: usize>(nodes: &[Raw; N], reach: &[bool; N], q: &P) -> Option<u8> {
    match lookup(nodes, reach, q) {
        Some(i) => nodes[i].1,
        None => None,
    }
}

/// reachable node (valued or not) with key `q`
pub fn node_at<const N: usize>(nodes: &[Raw; N], reach: &[bool; N], q: &P) -> Option<usize> {
    let mut r = None;
    let mut i = 0;
    while i < N {
        if reach[i] && same(&nodes[i].0, q) {
            r = Some(i);
        }
        i += 1;
    }
    r
}

/// longest entry covering `q` (inclusive), restricted to slots with `within[i]`
pub fn lpm_in<const N: usize>(
    nodes: &[Raw; N],
    reach: &[bool; N],
    within: &[bool; N],
    q: &P,
) -> Option<usize> {
    let mut r: Option<usize> = None;
    let mut i = 0;
    while i < N {
        if within[i] && entry(nodes, reach, i) && covers(&nodes[i].0, q) {
            r = match r {
                Some(j) if nodes[j].0 .1 >= nodes[i].0 .1 => Some(j),
                _ => Some(i),
            };
        }
        i += 1;
    }
    r
}

pub fn lpm<const N: usize>(nodes: &[Raw; N], reach: &[bool; N], q: &P) -> Option<usize> {
    lpm_in(nodes, reach, &[true; N], q)
}

/// shortest entry covering `q` (inclusive)
pub fn spm<const N: usize>(nodes: &[Raw; N], reach: &[bool; N], q: &P) -> Option<usize> {
    let mut r: Option<usize> = None;
    let mut i = 0;
    while i < N {
        if entry(nodes, reach, i) && covers(&nodes[i].0, q) {
            r = match r {
                Some(j) if nodes[j].0 .1 <= nodes[i].0 .1 => Some(j),
                _ => Some(i),
            };
        }
        i += 1;
    }
    r
}

/// number of entries covered by `q` (inclusive)
pub fn covered_count<const N: usize>(nodes: &[Raw; N], reach: &[bool; N], q: &P) -> usize {
    let mut n = 0;
    let mut i = 0;
    while i < N {
        if entry(nodes, reach, i) && covers(q, &nodes[i].0) {
            n += 1;
        }
        i += 1;
    }
    n
}

/// number of entries covering `q` (inclusive)
pub fn covering_count<const N: usize>(nodes: &[Raw; N], reach: &[bool; N], q: &P) -> usize {
    let mut n = 0;
    let mut i = 0;
    while i < N {
        if entry(nodes, reach, i) && covers(&nodes[i].0, q) {
            n += 1;
        }
        i += 1;
    }
    n
}
