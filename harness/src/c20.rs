//! C20: handle-level call sequences and callback-time observations. (Absence of panics, overflow,
//! out-of-bounds and divergence for single calls is discharged by Kani's built-in checks in every
//! other harness.)

use crate::arena::*;
use crate::obs::pre;
use crate::oracle::*;
use crate::spec::*;
use crate::src::Src;
use prefix_trie::map::Entry;
use prefix_trie::PrefixMap;

/// two consecutive calls on one OccupiedEntry. `AFTER_REMOVE`: the first call is `remove()`.
/// `OP2`: 255 = any second call, otherwise the second call is fixed (0 get, 1 get_mut, 2 key,
/// 3 remove, 4 insert) so that a panic is attributed to exactly one call pair.
pub fn occ_seq<S: Src, const AFTER_REMOVE: bool, const OP2: u8, const N: usize>(s: &mut S) {
    let (nodes, r) = pre::<S, N>(s);
    let mut map = mk_map_simple(&nodes, &r);
    let p = any_p(s);
    let op1 = s.u8();
    let op2 = if OP2 == 255 { s.u8() } else { OP2 };
    s.assume(op1 < 4 && op2 < 5);
    s.assume((op1 == 3) == AFTER_REMOVE);
    let w = s.u8();
    let mut removed = false;
    if let Entry::Occupied(mut e) = map.entry(p) {
        let mut k = 0;
        while k < 2 {
            let op = if k == 0 { op1 } else { op2 };
            match op {
                0 => {
                    let _ = *e.get();
                }
                1 => {
                    *e.get_mut() = w;
                }
                2 => {
                    let _ = *e.key();
                }
                3 => {
                    let _ = e.remove();
                    removed = true;
                }
                _ => {
                    if k == 1 {
                        let _ = e.insert(w);
                        break;
                    }
                }
            }
            k += 1;
        }
    }
    // whatever happened, the counter follows the entries
    let (post, _) = readback::<N>(&map);
    let pr = reach(&post);
    check!(s, map.len() == count(&post, &pr), "C04,C20:len() is consistent after a sequence of handle calls");
    cover!(s, lookup(&nodes, &r, &p).is_some(), "occupied entry");
    std::mem::forget(map);
}

/// value insertion through a mutable view followed by a map-level removal of that entry
pub fn view_set_then_remove<S: Src, const N: usize>(s: &mut S) {
    let (nodes, r) = pre::<S, N>(s);
    let mut map = mk_map::<N, 0>(&nodes, &Free::<0>::empty(), count(&nodes, &r), N, N);
    let i = s.idx(N);
    s.assume(r[i] && nodes[i].1.is_none());
    let w = s.u8();
    {
        let mut v = map.__verif_view_mut(None, i);
        let _ = v.set(w);
    }
    let got = map.remove(&nodes[i].0);
    check!(s, got == Some(w), "C01,C13:an entry inserted through a view is removable through the map");
    let (post, _) = readback::<N>(&map);
    let pr = reach(&post);
    check!(s, map.len() == count(&post, &pr), "C04:len() after TrieViewMut::set followed by remove");
    cover!(s, count(&nodes, &r) == 0, "map empty before the view insertion");
    cover!(s, count(&nodes, &r) >= 1, "other entries present");
    std::mem::forget(map);
}

/// user callbacks of the Entry API are invoked while the map still holds exactly the previous
/// entries (a panic inside them leaves the map untouched). OP: 0 or_insert_with, 1 insert_with,
/// 2 and_modify.
pub fn entry_callback<S: Src, const OP: u8, const N: usize>(s: &mut S) {
    let (nodes, r) = pre::<S, N>(s);
    let mut map = mk_map::<N, 0>(&nodes, &Free::<0>::empty(), count(&nodes, &r), N + 2, 1);
    let p = any_p(s);
    let v = s.u8();
    let mp: *const PrefixMap<P, u8> = &map;
    let mut bad = false;
    let mut calls = 0;
    let mut observe = || {
        let m: &PrefixMap<P, u8> = unsafe { &*mp };
        let (now, len) = readback::<N>(m);
        let mut same = len == N && m.__verif_count() == count(&nodes, &r) && m.__verif_free().len() == 0;
        let mut i = 0;
        while i < N {
            same = same && now[i] == nodes[i];
            i += 1;
        }
        bad = bad || !same;
        calls += 1;
    };
    match OP {
        0 => {
            let _ = map.entry(p).or_insert_with(|| {
                observe();
                v
            });
        }
        1 => {
            if let Entry::Vacant(e) = map.entry(p) {
                let _ = e.insert_with(|| {
                    observe();
                    v
                });
            }
        }
        _ => {
            let _ = map.entry(p).and_modify(|x| {
                observe();
                *x = v;
            });
        }
    }
    let stored = lookup(&nodes, &r, &p).is_some();
    check!(s, !bad, "C20:a user callback of the Entry API runs on the unmodified map");
    check!(s, calls == if (OP == 2) == stored { 1 } else { 0 }, "C01,C20:the callback runs exactly when documented (vacant for *_with, occupied for and_modify)");
    cover!(s, stored, "key stored");
    cover!(s, !stored, "key absent");
    std::mem::forget(map);
}
