// Harness instances: (name, unwind, growth cut, body). Metadata (property, tier, bounds) lives in
// /verif/registry.json, keyed by the same names.
harnesses! {
    (obs_get_n3, 5, nogrow, obs::get::<_, 3>),
    (obs_get_n4, 6, nogrow, obs::get::<_, 4>),
    (selftest_fail, 5, nogrow, obs::selftest_fail::<_, 2>),
}
