#!/bin/bash
# usage: seedrun.sh <patch.diff> <property> [extra ./check args]   -- applies a seeded change to /repo, runs the check, undoes it
set -u
patch=$1; prop=$2; shift 2
cd /repo || exit 3
if ! git diff --quiet; then echo "/repo has uncommitted changes"; exit 3; fi
git apply "$patch" || { echo "patch does not apply"; exit 3; }
cd /verif && ./check "$prop" "$@"
rc=$?
git -C /repo checkout -- .
echo "seedrun: exit=$rc"
exit $rc
