#!/usr/bin/env python3
"""records the outcome of one seeded-change run (called by seedpar.sh)"""
import json, sys
sid, prop, only, rc, wall, out = sys.argv[1:7]
lines = open(out, errors="replace").read().splitlines()
viol = [l.strip() for l in lines if l.startswith("VIOLATION") or l.strip().startswith("harness=")]
res = {"seed": sid, "property": prop,
       "mode": ("full quick tier" if only == "FULL" else "harnesses " + only) + " (scratch worktree of /repo with the patch applied; copy of /verif whose harness crate points at it)",
       "exit": int(rc), "detected": int(rc) == 1 and any(l.startswith("VIOLATION") for l in viol),
       "violations": [v.replace("/tmp/st/%s/verif" % sid, "/verif") for v in viol],
       "summary": [l for l in lines if l.startswith("summary") or "INCONCLUSIVE harness" in l or "NON-REPRO" in l or "KNOWN-FINDING" in l][:12],
       "wall_s": int(wall)}
key = "result_full.json" if only == "FULL" else "result.json"
json.dump(res, open("/verif/seeded/%s/%s" % (sid, key), "w"), indent=1)
print(sid, "exit=%s" % rc, "DETECTED" if res["detected"] else "MISSED", "%ss" % wall, "; ".join(res["violations"][:2])[:160], flush=True)
