#!/usr/bin/env python3
"""Runs every harness instance that is in no quick tier once on the unchanged tree (thorough limits)
and records those that complete with PASS in validated_thorough.json (mkreg.py then stops marking
them optional). usage: validate_thorough.py [--max-cost N] [name-regex]"""
import json, os, re, subprocess, sys
ROOT = os.path.dirname(os.path.abspath(__file__))
reg = json.load(open(os.path.join(ROOT, "registry.json")))
pat = None
maxcost = 10**9
args = sys.argv[1:]
while args:
    a = args.pop(0)
    if a == "--max-cost":
        maxcost = int(args.pop(0))
    else:
        pat = re.compile(a)
vp = os.path.join(ROOT, "validated_thorough.json")
validated = set(json.load(open(vp))) if os.path.exists(vp) else set()
todo = {}
for h in reg["harnesses"]:
    if h.get("quick_for") or not h.get("thorough_for") or h["name"] in validated:
        continue
    if pat and not pat.search(h["name"]):
        continue
    if h.get("cost", 0) > maxcost:
        continue
    todo.setdefault(h["thorough_for"][0], []).append(h["name"])
env = dict(os.environ, VERIF_WORK=os.path.join(ROOT, ".work4"))
for prop, names in sorted(todo.items()):
    print("==", prop, len(names), flush=True)
    r = subprocess.run(["./check", prop, "--tier", "thorough", "--only", ",".join(names), "--jobs", "6"], cwd=ROOT, env=env, capture_output=True, text=True)
    for l in r.stdout.splitlines():
        m = re.match(r"\[\s*\d+s\] (\S+)\s+(\S+)", l)
        if m:
            print(l, flush=True)
            if m.group(2) == "PASS":
                validated.add(m.group(1))
    json.dump(sorted(validated), open(vp, "w"), indent=1)
print("validated:", len(validated))
