#!/usr/bin/env python3
"""Regenerates the seed table of DESIGN.md §11 (between the SEEDTABLE markers) from seeded/*/meta.json,
seeded/*/result.json and registry.json."""
import json, os, glob, re
ROOT = os.path.dirname(os.path.abspath(__file__))
reg = json.load(open(os.path.join(ROOT, "registry.json")))
qf = {h["name"]: h.get("quick_for", []) for h in reg["harnesses"]}
tf = {h["name"]: h.get("thorough_for", []) for h in reg["harnesses"]}
rows = ["| seed | change (agent's summary, shortened) | outcome |", "|------|-------------------------------------|---------|"]
nq = nt = nm = 0
for d in sorted(glob.glob(os.path.join(ROOT, "seeded", "C*-*"))):
    sid = os.path.basename(d)
    meta = json.load(open(d + "/meta.json"))
    res = json.load(open(d + "/result.json")) if os.path.exists(d + "/result.json") else {}
    full = json.load(open(d + "/result_full.json")) if os.path.exists(d + "/result_full.json") else None
    prop = meta["property"]
    what = (meta.get("breaks") or "").replace("\n", " ").replace("|", "/")
    what = what[:150] + ("…" if len(what) > 150 else "")
    if full is not None and full.get("detected"):
        hs, labs = [], []
        for v in full["violations"]:
            m = re.search(r"harness=(\S+) assertion=(.*)", v)
            if m:
                hs.append(m.group(1)); labs.append(m.group(2))
        nq += 1
        rows.append("| %s | %s | **caught by the quick command of %s** (exit 1, %d s): %s — “%s” |" % (sid, what, prop, full.get("wall_s", 0), ", ".join("`%s`" % x for x in dict.fromkeys(hs)), labs[0][:120] if labs else ""))
    elif res.get("detected"):
        hs, labs = [], []
        for v in res["violations"]:
            m = re.search(r"harness=(\S+) assertion=(.*)", v)
            if m:
                hs.append(m.group(1)); labs.append(m.group(2))
        tiers = []
        inq = False
        for hn in dict.fromkeys(hs):
            t = "quick" if prop in qf.get(hn, []) else "thorough" if prop in tf.get(hn, []) else ("not in a tier of " + prop + "; quick tier of " + "/".join(qf.get(hn, [])) if qf.get(hn) else "not in a tier of " + prop)
            inq = inq or t == "quick"
            tiers.append("`%s` (%s)" % (hn, t))
        nt += 1
        rows.append("| %s | %s | quick command: %s; **caught by**: %s — “%s” |" % (sid, what, "not caught" if full is not None else "not run", "; ".join(tiers), labs[0][:120] if labs else ""))
    else:
        nm += 1
        rows.append("| %s | %s | **missed** (see below) |" % (sid, what))
txt = "\n".join(rows) + "\n\ncaught by the quick command of the seed's property: %d; only by an instance outside the quick tier of the seed's own property (thorough tier, or the quick tier of another property): %d; missed: %d.\n" % (nq, nt, nm)
dp = os.path.join(ROOT, "DESIGN.md")
s = open(dp).read()
a = s.index("<!-- SEEDTABLE START -->") + len("<!-- SEEDTABLE START -->")
b = s.index("<!-- SEEDTABLE END -->")
open(dp, "w").write(s[:a] + "\n" + txt + s[b:])
print("seed table regenerated:", nq, nt, nm)
