#!/bin/bash
# usage: seedpar.sh <seed-id> <property> <harness list|FULL>
# Runs the check against a seeded change in a scratch copy (worktree of /repo + copy of /verif whose
# harness crate points at that worktree), so that several seeds can be examined in parallel and /repo
# stays untouched. Result: /verif/seeded/<id>/result.json (mode says "scratch worktree").
sid=$1; prop=$2; only=$3; tier=${4:-quick}
base=/tmp/st/$sid
rm -rf $base; mkdir -p $base
git -C /repo worktree add --detach -q $base/repo HEAD || exit 3
cp /repo/Cargo.lock $base/repo/ 2>/dev/null
(cd $base/repo && git apply /verif/seeded/$sid/patch.diff) || { echo "$sid PATCH DOES NOT APPLY"; git -C /repo worktree remove --force $base/repo; exit 3; }
mkdir -p $base/verif
rsync -a --exclude '.work*' --exclude 'target' --exclude '.git' --exclude 'replays/*' /verif/ $base/verif/
sed -i "s#path = \"/repo\"#path = \"$base/repo\"#" $base/verif/harness/Cargo.toml
mkdir -p $base/verif/replays
cd $base/verif
t0=$(date +%s)
if [ "$only" = "FULL" ]; then
  VERIF_WORK=$base/work ./check $prop --tier quick --jobs 4 > $base/out.txt 2>&1
else
  VERIF_WORK=$base/work ./check $prop --tier $tier --only $only --jobs 4 > $base/out.txt 2>&1
fi
rc=$?
t1=$(date +%s)
python3 /verif/seedres.py "$sid" "$prop" "$only" "$rc" "$((t1-t0))" "$base/out.txt"
cp $base/verif/replays/*.json /verif/replays/ 2>/dev/null
git -C /repo worktree remove --force $base/repo
rm -rf $base
